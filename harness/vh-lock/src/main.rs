//! Lock engine (C20): contention histories on `essential_lock::StdLock`, checked offline.
//! Depends only on essential-lock and std so that it also runs under Miri and TSan.
//!
//! Every closure appends its unique id to the guarded vector and returns
//! `(id it saw last, own id, nonce)`. Call/return are stamped from one global counter outside
//! the lock. The checker demands: no two closures inside one lock at once; the final vector is
//! a permutation of all issued ids; every op's observed predecessor is the id right before it
//! (a single total order, no lost or torn update); real-time order is respected; `apply`
//! returns its own closure's value.

use essential_lock::StdLock;
use std::sync::{
    atomic::{AtomicBool, AtomicU64, Ordering},
    Arc,
};

struct Op {
    lock: usize,
    id: u64,
    call: u64,
    ret: u64,
    pred: u64,
    returned_id: u64,
    returned_nonce: u64,
    nonce: u64,
}

fn mix(mut x: u64) -> u64 {
    x = x.wrapping_add(0x9E37_79B9_7F4A_7C15);
    x = (x ^ (x >> 30)).wrapping_mul(0xBF58_476D_1CE4_E5B9);
    x = (x ^ (x >> 27)).wrapping_mul(0x94D0_49BB_1331_11EB);
    x ^ (x >> 31)
}

fn delay(kind: u64, miri: bool) {
    match kind % 6 {
        0 => std::thread::yield_now(),
        1 if !miri => {
            let t = std::time::Instant::now();
            while t.elapsed().as_nanos() < (kind >> 8) as u128 % 20_000 {
                std::hint::spin_loop();
            }
        }
        2 if !miri => std::thread::sleep(std::time::Duration::from_micros((kind >> 8) % 50)),
        _ => {}
    }
}

struct Outcome {
    ops: usize,
    violations: Vec<String>,
    switches: u64,
    signature: u64,
}

fn history(seed: u64, threads: usize, nlocks: usize, ops_per_thread: usize, miri: bool) -> Outcome {
    let locks: Arc<Vec<StdLock<Vec<u64>>>> = Arc::new((0..nlocks).map(|_| StdLock::new(Vec::new())).collect());
    let inside: Arc<Vec<AtomicBool>> = Arc::new((0..nlocks).map(|_| AtomicBool::new(false)).collect());
    let clock = Arc::new(AtomicU64::new(1));
    let overlap = Arc::new(AtomicU64::new(0));
    let mut handles = vec![];
    for t in 0..threads {
        let (locks, inside, clock, overlap) = (locks.clone(), inside.clone(), clock.clone(), overlap.clone());
        handles.push(std::thread::spawn(move || {
            let mut log = Vec::with_capacity(ops_per_thread);
            for k in 0..ops_per_thread {
                let h = mix(seed ^ ((t as u64) << 32) ^ k as u64);
                let l = (h % nlocks as u64) as usize;
                let id = ((t as u64 + 1) << 32) | (k as u64 + 1);
                let nonce = h >> 7;
                delay(h >> 3, miri);
                let call = clock.fetch_add(1, Ordering::SeqCst);
                let r = locks[l].apply(|v| {
                    if inside[l].swap(true, Ordering::SeqCst) {
                        overlap.fetch_add(1, Ordering::SeqCst);
                    }
                    let pred = v.last().copied().unwrap_or(0);
                    delay(h >> 13, miri);
                    v.push(id);
                    inside[l].store(false, Ordering::SeqCst);
                    (pred, id, nonce)
                });
                let ret = clock.fetch_add(1, Ordering::SeqCst);
                log.push(Op { lock: l, id, call, ret, pred: r.0, returned_id: r.1, returned_nonce: r.2, nonce });
            }
            log
        }));
    }
    let mut all: Vec<Op> = vec![];
    for h in handles {
        all.extend(h.join().expect("worker thread"));
    }
    let mut violations = vec![];
    if overlap.load(Ordering::SeqCst) > 0 {
        violations.push(format!("{} closures entered a lock while another was inside", overlap.load(Ordering::SeqCst)));
    }
    let mut switches = 0;
    let mut signature = 0xcbf2_9ce4_8422_2325u64;
    for l in 0..nlocks {
        let fin: Vec<u64> = locks[l].apply(|v| v.clone());
        let mine: Vec<&Op> = all.iter().filter(|o| o.lock == l).collect();
        let mut issued: Vec<u64> = mine.iter().map(|o| o.id).collect();
        issued.sort_unstable();
        let mut got = fin.clone();
        got.sort_unstable();
        if issued != got {
            violations.push(format!("lock {l}: final contents are not a permutation of the issued ids ({} issued, {} present): lost or duplicated update", issued.len(), got.len()));
            continue;
        }
        let pos: std::collections::HashMap<u64, usize> = fin.iter().enumerate().map(|(i, id)| (*id, i)).collect();
        for o in &mine {
            let p = pos[&o.id];
            let before = if p == 0 { 0 } else { fin[p - 1] };
            if o.pred != before {
                violations.push(format!("lock {l}: op {:#x} saw {:#x} as last element but {:#x} precedes it in the final order (update not serialised)", o.id, o.pred, before));
            }
            if o.returned_id != o.id || o.returned_nonce != o.nonce {
                violations.push(format!("lock {l}: apply returned another closure's value for op {:#x}", o.id));
            }
        }
        // real-time order: sort by position, track the maximal call stamp seen so far;
        // an op that returned before some earlier-positioned op was even called is a violation.
        let mut by_pos: Vec<&&Op> = mine.iter().collect();
        by_pos.sort_by_key(|o| pos[&o.id]);
        let mut max_call = 0u64;
        for o in &by_pos {
            if o.ret < max_call {
                violations.push(format!("lock {l}: op {:#x} returned (stamp {}) before an op ordered before it was called (stamp {max_call})", o.id, o.ret));
            }
            max_call = max_call.max(o.call);
        }
        for w in fin.windows(2) {
            if w[0] >> 32 != w[1] >> 32 {
                switches += 1;
            }
        }
        for id in &fin {
            signature = mix(signature ^ (id >> 32) ^ ((l as u64) << 8));
        }
    }
    violations.truncate(8);
    Outcome { ops: all.len(), violations, switches, signature }
}

fn main() {
    let argv: Vec<String> = std::env::args().collect();
    let get = |name: &str, default: u64| -> u64 {
        argv.iter().position(|a| a == name).and_then(|i| argv.get(i + 1)).and_then(|v| v.parse().ok()).unwrap_or(default)
    };
    let seed = get("--seed", 1);
    let histories = get("--histories", 1);
    let threads = get("--threads", 4) as usize;
    let locks = get("--locks", 1) as usize;
    let ops = get("--ops", 100) as usize;
    let miri = cfg!(miri);
    let vary = argv.iter().any(|a| a == "--vary");
    let t0 = std::time::Instant::now();
    let (mut total_ops, mut switches, mut nviol) = (0usize, 0u64, 0usize);
    let mut sigs = std::collections::BTreeSet::new();
    let mut first: Vec<String> = vec![];
    for h in 0..histories {
        let s = mix(seed.wrapping_mul(1_000_003).wrapping_add(h));
        let (t, l, o) = if vary { (2 + (s % (threads as u64 - 1).max(1)) as usize, 1 + ((s >> 8) % locks as u64) as usize, ops) } else { (threads, locks, ops) };
        let out = history(s, t, l, o, miri);
        total_ops += out.ops;
        switches += out.switches;
        sigs.insert(out.signature);
        nviol += out.violations.len();
        if first.len() < 5 {
            for v in out.violations {
                first.push(format!("history {h} (seed {s}, {t} threads, {l} locks, {o} ops/thread): {v}"));
            }
        }
    }
    let esc = |s: &str| s.replace('\\', "\\\\").replace('"', "\\\"");
    println!(
        "LOCKREPORT {{\"histories\": {histories}, \"ops\": {total_ops}, \"thread_switches_in_final_orders\": {switches}, \"distinct_final_orders\": {}, \"violations\": {nviol}, \"first\": [{}], \"wall_s\": {:.2}}}",
        sigs.len(),
        first.iter().map(|v| format!("\"{}\"", esc(v))).collect::<Vec<_>>().join(", "),
        t0.elapsed().as_secs_f64()
    );
    if nviol > 0 {
        std::process::exit(1);
    }
}
