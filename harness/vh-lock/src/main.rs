//! Lock engine (C20): contention histories on `essential_lock::StdLock`, checked offline.
//! Depends only on essential-lock and std so that it also runs under Miri and TSan.
//!
//! Every closure appends its unique id to the guarded vector and returns
//! `(id it saw last, own id, nonce)`. Call/return are stamped from one global counter outside
//! the lock. The checker demands: no two closures inside one lock at once; the final vector is
//! a permutation of all issued ids; every op's observed predecessor is the id right before it
//! (a single total order, no lost or torn update); real-time order is respected; `apply`
//! returns its own closure's value.

use essential_lock::StdLock;
use std::sync::{
    atomic::{AtomicBool, AtomicU64, Ordering},
    Arc,
};

struct Op {
    lock: usize,
    id: u64,
    call: u64,
    ret: u64,
    pred: u64,
    returned_id: u64,
    returned_nonce: u64,
    nonce: u64,
}

fn mix(mut x: u64) -> u64 {
    x = x.wrapping_add(0x9E37_79B9_7F4A_7C15);
    x = (x ^ (x >> 30)).wrapping_mul(0xBF58_476D_1CE4_E5B9);
    x = (x ^ (x >> 27)).wrapping_mul(0x94D0_49BB_1331_11EB);
    x ^ (x >> 31)
}

fn delay(kind: u64, miri: bool) {
    match kind % 6 {
        0 => std::thread::yield_now(),
        1 if !miri => {
            let t = std::time::Instant::now();
            while t.elapsed().as_nanos() < (kind >> 8) as u128 % 20_000 {
                std::hint::spin_loop();
            }
        }
        2 if !miri => std::thread::sleep(std::time::Duration::from_micros((kind >> 8) % 50)),
        _ => {}
    }
}

struct Outcome {
    ops: usize,
    violations: Vec<String>,
    switches: u64,
    signature: u64,
}

/// Calls to `apply` that have returned, over the whole process (progress signal for the stall monitor).
static RETURNED: AtomicU64 = AtomicU64::new(0);
/// Set while a steady-traffic history is running: the monitor only judges then.
static IN_HISTORY: AtomicBool = AtomicBool::new(false);

/// Steady traffic has no barrier at which a stall could be noticed from inside: a monitor thread watches the number
/// of returned calls instead. No call returning for 20 s while a history is running (every closure takes
/// microseconds) means callers are stuck in `apply`: reported as a violation, decided on progress, not on run time.
fn start_stall_monitor(describe: String) {
    std::thread::spawn(move || {
        let (mut last, mut t_last) = (RETURNED.load(Ordering::SeqCst), std::time::Instant::now());
        loop {
            std::thread::sleep(std::time::Duration::from_millis(200));
            let now = RETURNED.load(Ordering::SeqCst);
            if now != last || !IN_HISTORY.load(Ordering::SeqCst) {
                last = now;
                t_last = std::time::Instant::now();
            } else if t_last.elapsed().as_secs() >= 20 {
                println!(
                    "LOCKREPORT {{\"histories\": 1, \"ops\": {now}, \"thread_switches_in_final_orders\": 0, \"distinct_final_orders\": 0, \"violations\": 1, \"first\": [\"{describe}: no call to apply has returned for 20 s after {now} calls although threads are still calling it: callers are stuck in apply: deadlock\"], \"wall_s\": 0}}"
                );
                std::process::exit(1);
            }
        }
    });
}

fn history(seed: u64, threads: usize, nlocks: usize, ops_per_thread: usize, miri: bool) -> Outcome {
    IN_HISTORY.store(true, Ordering::SeqCst);
    let out = history_inner(seed, threads, nlocks, ops_per_thread, miri);
    IN_HISTORY.store(false, Ordering::SeqCst);
    out
}

fn history_inner(seed: u64, threads: usize, nlocks: usize, ops_per_thread: usize, miri: bool) -> Outcome {
    let locks: Arc<Vec<StdLock<Vec<u64>>>> = Arc::new((0..nlocks).map(|_| StdLock::new(Vec::new())).collect());
    let inside: Arc<Vec<AtomicBool>> = Arc::new((0..nlocks).map(|_| AtomicBool::new(false)).collect());
    let clock = Arc::new(AtomicU64::new(1));
    let overlap = Arc::new(AtomicU64::new(0));
    let mut handles = vec![];
    for t in 0..threads {
        let (locks, inside, clock, overlap) = (locks.clone(), inside.clone(), clock.clone(), overlap.clone());
        handles.push(std::thread::spawn(move || {
            let mut log = Vec::with_capacity(ops_per_thread);
            for k in 0..ops_per_thread {
                let h = mix(seed ^ ((t as u64) << 32) ^ k as u64);
                let l = (h % nlocks as u64) as usize;
                let id = ((t as u64 + 1) << 32) | (k as u64 + 1);
                let nonce = h >> 7;
                delay(h >> 3, miri);
                let call = clock.fetch_add(1, Ordering::SeqCst);
                let r = locks[l].apply(|v| {
                    if inside[l].swap(true, Ordering::SeqCst) {
                        overlap.fetch_add(1, Ordering::SeqCst);
                    }
                    let pred = v.last().copied().unwrap_or(0);
                    delay(h >> 13, miri);
                    v.push(id);
                    inside[l].store(false, Ordering::SeqCst);
                    (pred, id, nonce)
                });
                let ret = clock.fetch_add(1, Ordering::SeqCst);
                RETURNED.fetch_add(1, Ordering::Relaxed);
                log.push(Op { lock: l, id, call, ret, pred: r.0, returned_id: r.1, returned_nonce: r.2, nonce });
            }
            log
        }));
    }
    let mut all: Vec<Op> = vec![];
    for h in handles {
        all.extend(h.join().expect("worker thread"));
    }
    // all calls have returned: the offline check that follows is not traffic
    IN_HISTORY.store(false, Ordering::SeqCst);
    let finals: Vec<Vec<u64>> = (0..nlocks).map(|l| locks[l].apply(|v| v.clone())).collect();
    check_history(&all, &finals, overlap.load(Ordering::SeqCst), vec![])
}

/// The offline checker: one total order per lock, consistent with every observed predecessor, with real time
/// and with the values `apply` returned.
fn check_history(all: &[Op], finals: &[Vec<u64>], overlaps: u64, mut violations: Vec<String>) -> Outcome {
    let nlocks = finals.len();
    if overlaps > 0 {
        violations.push(format!("{overlaps} closures entered a lock while another was inside"));
    }
    let mut switches = 0;
    let mut signature = 0xcbf2_9ce4_8422_2325u64;
    for l in 0..nlocks {
        let fin: &Vec<u64> = &finals[l];
        let mine: Vec<&Op> = all.iter().filter(|o| o.lock == l).collect();
        let mut issued: Vec<u64> = mine.iter().map(|o| o.id).collect();
        issued.sort_unstable();
        let mut got = fin.clone();
        got.sort_unstable();
        if issued != got {
            violations.push(format!("lock {l}: final contents are not a permutation of the issued ids ({} issued, {} present): lost or duplicated update", issued.len(), got.len()));
            continue;
        }
        let pos: std::collections::HashMap<u64, usize> = fin.iter().enumerate().map(|(i, id)| (*id, i)).collect();
        for o in &mine {
            let p = pos[&o.id];
            let before = if p == 0 { 0 } else { fin[p - 1] };
            if o.pred != before {
                violations.push(format!("lock {l}: op {:#x} saw {:#x} as last element but {:#x} precedes it in the final order (update not serialised)", o.id, o.pred, before));
            }
            if o.returned_id != o.id || o.returned_nonce != o.nonce {
                violations.push(format!("lock {l}: apply returned another closure's value for op {:#x}", o.id));
            }
        }
        // real-time order: sort by position, track the maximal call stamp seen so far;
        // an op that returned before some earlier-positioned op was even called is a violation.
        let mut by_pos: Vec<&&Op> = mine.iter().collect();
        by_pos.sort_by_key(|o| pos[&o.id]);
        let mut max_call = 0u64;
        for o in &by_pos {
            if o.ret < max_call {
                violations.push(format!("lock {l}: op {:#x} returned (stamp {}) before an op ordered before it was called (stamp {max_call})", o.id, o.ret));
            }
            max_call = max_call.max(o.call);
        }
        for w in fin.windows(2) {
            if w[0] >> 32 != w[1] >> 32 {
                switches += 1;
            }
        }
        for id in fin {
            signature = mix(signature ^ (id >> 32) ^ ((l as u64) << 8));
        }
    }
    violations.truncate(8);
    Outcome { ops: all.len(), violations, switches, signature }
}

/// Closed bursts: persistent worker threads are released together round after round; in every round each worker
/// makes `per_round` calls and then waits at the barrier. Because a round is closed, a call that is parked while
/// the lock is free (lost wake-up) can only be rescued by the next round - which does not start before the call
/// returns. The coordinator decides on progress, not on a deadline for the run: a stall is declared only when no
/// call at all has returned for `STALL_S` seconds although every other worker is idle at the barrier; it then makes
/// an unrelated call on every lock itself (from a probe thread) and reports whether that released the stuck caller.
fn bursts(seed: u64, threads: usize, nlocks: usize, rounds: usize, per_round: usize, miri: bool) -> Outcome {
    const STALL_S: u64 = 20;
    let locks: Arc<Vec<StdLock<Vec<u64>>>> = Arc::new((0..nlocks).map(|_| StdLock::new(Vec::new())).collect());
    let inside: Arc<Vec<AtomicBool>> = Arc::new((0..nlocks).map(|_| AtomicBool::new(false)).collect());
    let clock = Arc::new(AtomicU64::new(1));
    let overlap = Arc::new(AtomicU64::new(0));
    let epoch = Arc::new(AtomicU64::new(0));
    let done = Arc::new(AtomicU64::new(0));
    let stop = Arc::new(AtomicBool::new(false));
    let logs: Arc<Vec<std::sync::Mutex<Vec<Op>>>> = Arc::new((0..threads).map(|_| std::sync::Mutex::new(Vec::new())).collect());
    let mut handles = vec![];
    for t in 0..threads {
        let (locks, inside, clock, overlap, epoch, done, stop, logs) = (locks.clone(), inside.clone(), clock.clone(), overlap.clone(), epoch.clone(), done.clone(), stop.clone(), logs.clone());
        handles.push(std::thread::spawn(move || {
            for round in 0..rounds {
                let mut spins = 0u32;
                while epoch.load(Ordering::Acquire) <= round as u64 {
                    if stop.load(Ordering::Relaxed) {
                        return;
                    }
                    spins += 1;
                    if miri || spins % 2048 == 0 {
                        std::thread::yield_now();
                    } else {
                        std::hint::spin_loop();
                    }
                }
                for j in 0..per_round {
                    let k = round * per_round + j;
                    let h = mix(seed ^ ((t as u64) << 40) ^ k as u64);
                    let l = (h % nlocks as u64) as usize;
                    let id = ((t as u64 + 1) << 40) | (k as u64 + 1);
                    let nonce = h >> 7;
                    let call = clock.fetch_add(1, Ordering::SeqCst);
                    let r = locks[l].apply(|v| {
                        if inside[l].swap(true, Ordering::SeqCst) {
                            overlap.fetch_add(1, Ordering::SeqCst);
                        }
                        let pred = v.last().copied().unwrap_or(0);
                        v.push(id);
                        inside[l].store(false, Ordering::SeqCst);
                        (pred, id, nonce)
                    });
                    let ret = clock.fetch_add(1, Ordering::SeqCst);
                    logs[t].lock().unwrap().push(Op { lock: l, id, call, ret, pred: r.0, returned_id: r.1, returned_nonce: r.2, nonce });
                }
                done.fetch_add(1, Ordering::Release);
            }
        }));
    }
    let mut violations = vec![];
    let mut hung = false;
    'rounds: for round in 0..rounds {
        epoch.store(round as u64 + 1, Ordering::Release);
        let target = (round as u64 + 1) * threads as u64;
        let (mut last, mut t_last, mut spins) = (done.load(Ordering::Acquire), std::time::Instant::now(), 0u32);
        loop {
            let d = done.load(Ordering::Acquire);
            if d == target {
                break;
            }
            spins += 1;
            if miri || spins % 1024 == 0 {
                std::thread::yield_now();
                if d != last {
                    last = d;
                    t_last = std::time::Instant::now();
                } else if !miri && t_last.elapsed().as_secs() >= STALL_S {
                    let outstanding = target - d;
                    // an unrelated call on every lock, from a probe thread (it may hang as well)
                    let probe_done = Arc::new(AtomicBool::new(false));
                    {
                        let (locks, probe_done) = (locks.clone(), probe_done.clone());
                        std::thread::spawn(move || {
                            for l in locks.iter() {
                                l.apply(|v| v.len());
                            }
                            probe_done.store(true, Ordering::SeqCst);
                        });
                    }
                    let t0 = std::time::Instant::now();
                    while t0.elapsed().as_secs() < 10 && done.load(Ordering::Acquire) != target {
                        std::thread::sleep(std::time::Duration::from_millis(20));
                    }
                    let rescued = done.load(Ordering::Acquire) == target;
                    violations.push(format!(
                        "round {round}: {outstanding} of {threads} workers had a call to apply outstanding for {STALL_S} s while every other worker was idle at the barrier; an unrelated apply on each lock {} and afterwards the stuck call(s) {}: a caller was parked although the lock was free (lost wake-up / deadlock)",
                        if probe_done.load(Ordering::SeqCst) { "returned at once" } else { "did not return either" },
                        if rescued { "returned" } else { "still had not returned" }
                    ));
                    // one witness is enough (every further one would cost another STALL_S seconds)
                    hung = !rescued;
                    break 'rounds;
                } else {
                    std::hint::spin_loop();
                }
            } else {
                std::hint::spin_loop();
            }
        }
    }
    stop.store(true, Ordering::SeqCst);
    if hung {
        // the stuck workers cannot be joined; report what is known and leave
        violations.truncate(8);
        return Outcome { ops: logs.iter().map(|l| l.lock().unwrap().len()).sum(), violations, switches: 0, signature: 0 };
    }
    for h in handles {
        h.join().expect("worker thread");
    }
    let mut all: Vec<Op> = vec![];
    for l in logs.iter() {
        all.append(&mut l.lock().unwrap());
    }
    let finals: Vec<Vec<u64>> = (0..nlocks).map(|l| locks[l].apply(|v| v.clone())).collect();
    check_history(&all, &finals, overlap.load(Ordering::SeqCst), violations)
}

/// A closure that panics inside `apply` (the fault), then ordinary traffic on the same lock from every thread.
/// What a call does after the lock was poisoned is not specified here (the unchanged code panics at once); what
/// is demanded is progress: every call returns or unwinds, none blocks forever. Decided on progress: a stall is
/// declared when no call has finished for 20 s although calls are outstanding.
fn poison_history(seed: u64, threads: usize, ops_per_thread: usize, miri: bool) -> Outcome {
    // guarded value: (list, count) with the invariant count == list.len(); the faulty closure updates the list,
    // lingers (so that other callers queue up behind it) and panics before it updates the count
    let lock: Arc<StdLock<(Vec<u64>, u64)>> = Arc::new(StdLock::new((Vec::new(), 0)));
    let finished = Arc::new(AtomicU64::new(0));
    let calls = Arc::new(AtomicU64::new(0));
    let torn = Arc::new(AtomicU64::new(0));
    let mut handles = vec![];
    for t in 0..threads {
        let (lock, finished, calls, torn) = (lock.clone(), finished.clone(), calls.clone(), torn.clone());
        handles.push(std::thread::spawn(move || {
            for k in 0..ops_per_thread {
                let h = mix(seed ^ ((t as u64) << 32) ^ k as u64);
                delay(h >> 3, miri);
                let faulty = t == 0 && k == ops_per_thread / 2;
                let _ = std::panic::catch_unwind(std::panic::AssertUnwindSafe(|| {
                    lock.apply(|v| {
                        if v.0.len() as u64 != v.1 {
                            torn.fetch_add(1, Ordering::SeqCst);
                        }
                        v.0.push(h);
                        if faulty {
                            if !miri {
                                let t0 = std::time::Instant::now();
                                while (t0.elapsed().as_micros() as u64) < 300 + (h >> 20) % 2000 {
                                    std::hint::spin_loop();
                                }
                            } else {
                                std::thread::yield_now();
                            }
                            panic!("injected fault inside the closure");
                        }
                        v.1 += 1;
                        v.1
                    })
                }));
                calls.fetch_add(1, Ordering::SeqCst);
            }
            finished.fetch_add(1, Ordering::SeqCst);
        }));
    }
    let mut violations = vec![];
    let (mut last, mut t_last) = (0u64, std::time::Instant::now());
    while finished.load(Ordering::SeqCst) < threads as u64 {
        if miri {
            std::thread::yield_now();
            continue;
        }
        std::thread::sleep(std::time::Duration::from_millis(5));
        let c = calls.load(Ordering::SeqCst);
        if c != last {
            last = c;
            t_last = std::time::Instant::now();
        } else if t_last.elapsed().as_secs() >= 20 {
            violations.push(format!(
                "after a closure panicked inside apply, {} of {threads} threads are blocked in apply: no call returned or unwound for 20 s ({c} of {} calls finished): deadlock",
                threads as u64 - finished.load(Ordering::SeqCst),
                threads * ops_per_thread
            ));
            return Outcome { ops: c as usize, violations, switches: 0, signature: 0 };
        }
    }
    for h in handles {
        let _ = h.join();
    }
    let n = torn.load(Ordering::SeqCst);
    if n > 0 {
        violations.push(format!("{n} closures were let into the lock on top of the half-applied update of a closure that panicked (they observed list length != count): torn update observed"));
    }
    Outcome { ops: calls.load(Ordering::SeqCst) as usize, violations, switches: 0, signature: seed }
}

fn main() {
    let argv: Vec<String> = std::env::args().collect();
    let get = |name: &str, default: u64| -> u64 {
        argv.iter().position(|a| a == name).and_then(|i| argv.get(i + 1)).and_then(|v| v.parse().ok()).unwrap_or(default)
    };
    let seed = get("--seed", 1);
    let histories = get("--histories", 1);
    let threads = get("--threads", 4) as usize;
    let locks = get("--locks", 1) as usize;
    let ops = get("--ops", 100) as usize;
    let miri = cfg!(miri);
    let vary = argv.iter().any(|a| a == "--vary");
    let bursts_n = get("--bursts", 0) as usize;
    let per_round = get("--per-round", 1) as usize;
    let poison = argv.iter().any(|a| a == "--poison");
    if poison {
        // the injected panics are expected: keep them off the output
        std::panic::set_hook(Box::new(|_| {}));
    }
    let t0 = std::time::Instant::now();
    if !miri && !poison && bursts_n == 0 {
        start_stall_monitor(format!("steady traffic ({threads} threads, {locks} locks, {ops} ops/thread, {histories} histories)"));
    }
    let (mut total_ops, mut switches, mut nviol) = (0usize, 0u64, 0usize);
    let mut sigs = std::collections::BTreeSet::new();
    let mut first: Vec<String> = vec![];
    for h in 0..histories {
        let s = mix(seed.wrapping_mul(1_000_003).wrapping_add(h));
        let (t, l, o) = if vary { (2 + (s % (threads as u64 - 1).max(1)) as usize, 1 + ((s >> 8) % locks as u64) as usize, ops) } else { (threads, locks, ops) };
        let out = if poison {
            poison_history(s, t, o, miri)
        } else if bursts_n > 0 {
            bursts(s, t, l, bursts_n, per_round, miri)
        } else {
            history(s, t, l, o, miri)
        };
        let hung = out.violations.iter().any(|v| v.contains("still had not returned") || v.contains("are blocked in apply"));
        total_ops += out.ops;
        switches += out.switches;
        sigs.insert(out.signature);
        nviol += out.violations.len();
        if first.len() < 5 {
            for v in out.violations {
                first.push(format!("history {h} (seed {s}, {t} threads, {l} locks, {}): {v}", if bursts_n > 0 { format!("{bursts_n} bursts of {per_round} call(s) per thread") } else { format!("{o} ops/thread") }));
            }
        }
        if hung {
            break; // parked worker threads are still around: no further histories in this process
        }
    }
    let esc = |s: &str| s.replace('\\', "\\\\").replace('"', "\\\"");
    println!(
        "LOCKREPORT {{\"histories\": {histories}, \"ops\": {total_ops}, \"thread_switches_in_final_orders\": {switches}, \"distinct_final_orders\": {}, \"violations\": {nviol}, \"first\": [{}], \"wall_s\": {:.2}}}",
        sigs.len(),
        first.iter().map(|v| format!("\"{}\"", esc(v))).collect::<Vec<_>>().join(", "),
        t0.elapsed().as_secs_f64()
    );
    if nviol > 0 {
        std::process::exit(1);
    }
}
