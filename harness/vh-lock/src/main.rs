fn main() {}
