//! Limits engine (C16, validator part): the validators must accept exactly the documented
//! limits. The oracle is the predicate written from the property text.

use crate::{report::Report, rng::Rng, vmcase::catch, Args};
use essential_check::{predicate as cpred, solution as csol};
use essential_types::{
    contract::{Contract, SignedContract},
    predicate::{Node, Predicate},
    solution::{Mutation, Solution, SolutionSet},
    ContentAddress, PredicateAddress, Signature, Word,
};
use serde_json::json;
use std::collections::BTreeSet;

fn dim(r: &mut Rng, limit: usize, p_boundary: f64) -> usize {
    if r.chance(p_boundary) {
        if r.chance(0.2) {
            // somewhere in between (batch / chunk sizes a validator might use internally)
            let mid: Vec<usize> = [16usize, 17, 63, 64, 65, 127, 128, 129, 255, 256, 257, 512, 513, 4096, 4097].into_iter().filter(|m| *m < limit).collect();
            *r.pick(&mid)
        } else {
            *r.pick(&[0, 1, limit - 1, limit, limit + 1])
        }
    } else {
        r.below(4)
    }
}

/// The documented acceptance rule for solution sets.
fn spec_set(set: &SolutionSet) -> bool {
    let ns = set.solutions.len();
    if !(1..=100).contains(&ns) {
        return false;
    }
    let mut total = 0;
    for s in &set.solutions {
        if s.predicate_data.len() > 100 || s.predicate_data.iter().any(|v| v.len() > 10_000) {
            return false;
        }
        total += s.state_mutations.len();
        let mut keys = BTreeSet::new();
        for m in &s.state_mutations {
            if m.key.len() > 1000 || m.value.len() > 10_000 || !keys.insert(&m.key) {
                return false;
            }
        }
    }
    total <= 1000
}

fn spec_predicate(p: &Predicate) -> bool {
    p.nodes.len() <= 1000 && p.edges.len() <= 1000
}

fn gen_set(r: &mut Rng) -> (SolutionSet, serde_json::Value) {
    // one dimension at a boundary (sometimes two), the rest small; the item that carries the boundary value
    // sits at a random position (solution, slot, mutation), not always first
    let which = r.below(8);
    let second = if r.chance(0.15) { r.below(8) } else { 99 };
    let at = |d: usize| which == d || second == d;
    let ns = if at(0) { dim(r, 100, 1.0) } else { 1 + r.below(4) };
    let total_muts = if at(1) { dim(r, 1000, 1.0) } else { r.below(7) };
    let slots = if at(2) { dim(r, 100, 1.0) } else { r.below(3) };
    let slot_len = if at(3) { dim(r, 10_000, 1.0) } else { r.below(4) };
    let key_len = if at(4) { dim(r, 1000, 1.0) } else { 1 + r.below(3) };
    let val_len = if at(5) { dim(r, 10_000, 1.0) } else { r.below(4) };
    let dup = at(6) || r.chance(0.05);
    let cross_dup = at(7);
    let ts = if ns > 0 { r.below(ns) } else { 0 }; // the solution carrying the boundary slots
    let big_slot = if slots > 0 { r.below(slots) } else { 0 };
    let mut solutions: Vec<Solution> = (0..ns)
        .map(|i| Solution {
            predicate_to_solve: PredicateAddress { contract: ContentAddress([i as u8; 32]), predicate: ContentAddress([7; 32]) },
            predicate_data: (0..if i == ts { slots } else { r.below(2) }).map(|j| vec![j as Word; if i == ts && j == big_slot { slot_len } else { 1 }]).collect(),
            state_mutations: vec![],
        })
        .collect();
    if ns > 0 {
        let (big_key, big_val) = (r.below(total_muts.max(1)), r.below(total_muts.max(1)));
        let offset = r.below(ns);
        for m in 0..total_muts {
            let si = (m + offset) % ns;
            let mut key = vec![m as Word; if m == big_key { key_len } else { 2 }];
            if key.is_empty() && solutions[si].state_mutations.iter().any(|x| x.key.is_empty()) {
                key = vec![m as Word];
            }
            solutions[si].state_mutations.push(Mutation { key, value: vec![1; if m == big_val { val_len } else { 1 }] });
        }
        let with_muts: Vec<usize> = (0..ns).filter(|i| !solutions[*i].state_mutations.is_empty()).collect();
        if dup && !with_muts.is_empty() {
            // the same key twice in one solution, both copies anywhere in its list
            let si = *r.pick(&with_muts);
            let n = solutions[si].state_mutations.len();
            let k = solutions[si].state_mutations[r.below(n)].key.clone();
            let pos = r.below(n + 1);
            solutions[si].state_mutations.insert(pos, Mutation { key: k, value: vec![9] });
        }
        if cross_dup && ns >= 2 && !with_muts.is_empty() {
            // same key in two different solutions is allowed
            let si = *r.pick(&with_muts);
            let n = solutions[si].state_mutations.len();
            let k = solutions[si].state_mutations[r.below(n)].key.clone();
            let sj = (si + 1 + r.below(ns - 1)) % ns;
            if !solutions[sj].state_mutations.iter().any(|m| m.key == k) && k.len() <= 1000 {
                let pos = r.below(solutions[sj].state_mutations.len() + 1);
                solutions[sj].state_mutations.insert(pos, Mutation { key: k, value: vec![9] });
            }
        }
    }
    let dims = json!({"solutions": ns, "total_mutations": solutions.iter().map(|s| s.state_mutations.len()).sum::<usize>(), "slots": slots, "slots_in_solution": ts, "slot_len": slot_len,
        "key_len": key_len, "value_len": val_len, "duplicate_key": dup, "same_key_in_two_solutions": cross_dup,
        "mutations_per_solution": solutions.iter().map(|s| s.state_mutations.len()).collect::<Vec<_>>()});
    (SolutionSet { solutions }, dims)
}

fn gen_pred(r: &mut Rng, boundary: bool) -> Predicate {
    let nn = if boundary { dim(r, 1000, 1.0) } else { r.below(4) };
    let ne = if boundary && r.chance(0.7) { dim(r, 1000, 1.0) } else { r.below(4) };
    Predicate {
        nodes: (0..nn).map(|i| Node { edge_start: u16::MAX, program_address: ContentAddress([i as u8; 32]) }).collect(),
        edges: (0..ne).map(|_| 0).collect(),
    }
}

pub fn run(args: &Args, rep: &mut Report) {
    crate::vmcase::install_panic_hook();
    let thorough = args.tier == "thorough";
    let mut r = Rng::new(crate::rng::mix(args.seed.wrapping_mul(1_000_003) + args.shard as u64, 0x11317));
    let budget = ((if thorough { 6_000_000.0 } else { 300_000.0 }) * args.scale) as u64 / args.nshards as u64;
    let secp = secp256k1::Secp256k1::new();
    for _ in 0..budget.max(1) {
        // --- solution sets
        let (set, dims) = gen_set(&mut r);
        let case = || json!({"engine": "limits", "kind": "set", "dims": dims});
        crate::wal(&case);
        rep.evaluations += 1;
        let want = spec_set(&set);
        match catch(|| csol::check_set(&set).is_ok()) {
            Err(p) => rep.violation("C06", "panic", format!("check_set panicked: {p}"), case()),
            Ok(got) => {
                rep.count(if got { "sets.accepted" } else { "sets.rejected" });
                if got != want {
                    let mut full = case();
                    full["set"] = serde_json::to_value(&set).unwrap_or_default();
                    rep.violation("C16", "set-limits", format!("check_set -> {}, documented limits -> {} for {dims}", if got { "accept" } else { "reject" }, if want { "accept" } else { "reject" }), full);
                }
            }
        }
        rep.nontrivial(crate::rng::fnv(dims.to_string().as_bytes()));
        // --- predicates / contracts
        let p = gen_pred(&mut r, true);
        rep.evaluations += 1;
        let pc = || json!({"engine": "limits", "kind": "predicate", "nodes": p.nodes.len(), "edges": p.edges.len()});
        if cpred::check(&p).is_ok() != spec_predicate(&p) {
            rep.violation("C16", "predicate-limits", format!("predicate::check disagrees with the limits for {} nodes / {} edges", p.nodes.len(), p.edges.len()), pc());
        }
        rep.count(if spec_predicate(&p) { "predicates.accepted" } else { "predicates.rejected" });
        let np = dim(&mut r, 100, 0.6);
        let bad_at = if r.chance(0.2) && np > 0 { Some(r.below(np)) } else { None };
        let preds: Vec<Predicate> = (0..np)
            .map(|i| {
                if Some(i) == bad_at {
                    let mut q = gen_pred(&mut r, false);
                    if r.chance(0.5) {
                        q.edges = vec![0; 1001];
                    } else {
                        q.nodes = (0..1001).map(|k| Node { edge_start: u16::MAX, program_address: ContentAddress([k as u8; 32]) }).collect();
                    }
                    q
                } else if r.chance(0.02) {
                    // members exactly at the limits are fine
                    gen_pred(&mut r, true)
                } else {
                    gen_pred(&mut r, false)
                }
            })
            .collect();
        let want = np <= 100 && preds.iter().all(spec_predicate);
        rep.evaluations += 1;
        let cc = || json!({"engine": "limits", "kind": "contract", "predicates": np, "invalid_predicate_at": bad_at, "member_shapes": preds.iter().map(|p| (p.nodes.len(), p.edges.len())).collect::<Vec<_>>()});
        if cpred::check_contract(&preds).is_ok() != want {
            rep.violation("C16", "contract-limits", format!("check_contract disagrees with the limits for {np} predicates (invalid one at {bad_at:?})"), cc());
        }
        rep.count(if want { "contracts.accepted" } else { "contracts.rejected" });
        // --- signed contracts: additionally a recoverable signature
        if r.chance(0.25) {
            let contract = Contract { predicates: preds.iter().take(3).cloned().collect(), salt: r.bytes32() };
            let valid_contract = contract.predicates.len() <= 100 && contract.predicates.iter().all(spec_predicate);
            let sk = loop {
                if let Ok(sk) = secp256k1::SecretKey::from_slice(&r.bytes32()) {
                    break sk;
                }
            };
            let mut signed = essential_sign::contract::sign(contract, &sk);
            match r.below(4) {
                0 => signed.signature.0[r.below(64)] ^= 1 << r.below(8),
                1 => signed.signature.1 = r.below(256) as u8,
                2 => signed.signature = Signature([0xff; 64], 0),
                _ => {}
            }
            // own recoverability test, straight on secp256k1
            let addr = crate::formats::own_contract_addr(&signed.contract);
            let recoverable = secp256k1::ecdsa::RecoveryId::try_from(signed.signature.1 as i32)
                .ok()
                .and_then(|id| secp256k1::ecdsa::RecoverableSignature::from_compact(&signed.signature.0, id).ok())
                .and_then(|s| secp.recover_ecdsa(&secp256k1::Message::from_digest(addr), &s).ok())
                .is_some();
            rep.evaluations += 1;
            let sc = || json!({"engine": "limits", "kind": "signed-contract", "signature": signed.signature.to_string(), "predicates": signed.contract.predicates.len(), "signed_contract": signed});
            match catch(|| cpred::check_signed_contract(&signed).is_ok()) {
                Err(p) => rep.violation("C06", "panic", format!("check_signed_contract panicked: {p}"), sc()),
                Ok(got) => {
                    if got != (recoverable && valid_contract) {
                        rep.violation("C16", "signed-contract", format!("check_signed_contract -> {got}, recoverable signature: {recoverable}, contract within limits: {valid_contract}"), sc());
                    }
                    rep.count(if recoverable { "signed.recoverable" } else { "signed.unrecoverable" });
                }
            }
            let _: &SignedContract = &signed;
        }
    }
    rep.sample(2, || json!({"kind": "set", "dims": {"solutions": 100, "total_mutations": 1001}, "note": "each case puts one dimension at 0 / 1 / limit-1 / limit / limit+1 and keeps the others small; plus predicates (nodes/edges), contracts (predicate count, one invalid member), signed contracts (genuine and corrupted signatures)"}));
}

fn shape_pred(nn: usize, ne: usize) -> Predicate {
    Predicate {
        nodes: (0..nn).map(|i| Node { edge_start: u16::MAX, program_address: ContentAddress([i as u8; 32]) }).collect(),
        edges: (0..ne).map(|_| 0).collect(),
    }
}

/// Replay a recorded case from its data (violations carry the full set / member shapes / signed contract).
pub fn replay(case: &serde_json::Value, rep: &mut Report) {
    crate::vmcase::install_panic_hook();
    let c = || case.clone();
    match case.get("kind").and_then(|k| k.as_str()).unwrap_or("") {
        "set" => {
            let Some(set) = case.get("set").cloned().and_then(|s| serde_json::from_value::<SolutionSet>(s).ok()) else {
                rep.inconclusive.push("the recorded case does not carry the set (only its dimensions)".into());
                return;
            };
            let want = spec_set(&set);
            match catch(|| csol::check_set(&set).is_ok()) {
                Err(p) => rep.violation("C06", "panic", format!("check_set panicked: {p}"), c()),
                Ok(got) if got != want => rep.violation("C16", "set-limits", format!("check_set -> {got}, documented limits -> {want}"), c()),
                Ok(_) => {}
            }
        }
        "predicate" => {
            let (nn, ne) = (case["nodes"].as_u64().unwrap_or(0) as usize, case["edges"].as_u64().unwrap_or(0) as usize);
            let p = shape_pred(nn, ne);
            if cpred::check(&p).is_ok() != spec_predicate(&p) {
                rep.violation("C16", "predicate-limits", format!("predicate::check disagrees with the limits for {nn} nodes / {ne} edges"), c());
            }
        }
        "contract" => {
            let shapes: Vec<(usize, usize)> = serde_json::from_value(case["member_shapes"].clone()).unwrap_or_default();
            let preds: Vec<Predicate> = shapes.iter().map(|(n, e)| shape_pred(*n, *e)).collect();
            let want = preds.len() <= 100 && preds.iter().all(spec_predicate);
            if cpred::check_contract(&preds).is_ok() != want {
                rep.violation("C16", "contract-limits", format!("check_contract disagrees with the limits for {} predicates", preds.len()), c());
            }
        }
        "signed-contract" => {
            let Some(signed) = case.get("signed_contract").cloned().and_then(|s| serde_json::from_value::<SignedContract>(s).ok()) else {
                rep.inconclusive.push("cannot read the recorded signed contract".into());
                return;
            };
            let secp = secp256k1::Secp256k1::new();
            let valid_contract = signed.contract.predicates.len() <= 100 && signed.contract.predicates.iter().all(spec_predicate);
            let addr = crate::formats::own_contract_addr(&signed.contract);
            let recoverable = secp256k1::ecdsa::RecoveryId::try_from(signed.signature.1 as i32)
                .ok()
                .and_then(|id| secp256k1::ecdsa::RecoverableSignature::from_compact(&signed.signature.0, id).ok())
                .and_then(|s| secp.recover_ecdsa(&secp256k1::Message::from_digest(addr), &s).ok())
                .is_some();
            match catch(|| cpred::check_signed_contract(&signed).is_ok()) {
                Err(p) => rep.violation("C06", "panic", format!("check_signed_contract panicked: {p}"), c()),
                Ok(got) if got != (recoverable && valid_contract) => rep.violation("C16", "signed-contract", format!("check_signed_contract -> {got}, recoverable signature: {recoverable}, contract within limits: {valid_contract}"), c()),
                Ok(_) => {}
            }
        }
        other => rep.inconclusive.push(format!("no replay for limits case kind '{other}'")),
    }
}
