//! Harness-owned state: the `StateRead` implementation handed to the code under test. It
//! doubles as a spy (every request is logged at the API boundary) and as a delay injector
//! (it is called from inside rayon tasks).

use essential_types::{ContentAddress, Key, Value, Word};
use essential_vm::{StateRead, StateReads};
use serde::{Deserialize, Serialize};
use std::{
    collections::BTreeMap,
    sync::{
        atomic::{AtomicU64, Ordering},
        Arc, Mutex,
    },
};

/// Values a range read can return at most; more can never fit into VM memory.
pub const RANGE_CAP: usize = 6000;

#[derive(Clone, Debug, Serialize, Deserialize, PartialEq)]
pub enum Script {
    /// Documented semantics: one value per key, key incremented lexicographically with
    /// carry, absent keys read as empty, range ends when the key overflows.
    Range,
    /// Return exactly these values whatever was asked (ragged / too few / too many).
    Fixed(Vec<Vec<Word>>),
    /// Fail with this error.
    Fail(String),
}

#[derive(Clone, Debug, Serialize, Deserialize, PartialEq)]
pub struct ViewSpec {
    pub entries: Vec<(ContentAddress, Key, Value)>,
    pub script: Script,
    /// Fault injection: a `Range` request whose key range covers one of these keys fails with a state error
    /// (whichever way the range is cut into requests, the same reads fail).
    #[serde(default)]
    pub poison: Vec<(ContentAddress, Key)>,
}

impl Default for ViewSpec {
    fn default() -> Self {
        ViewSpec {
            entries: vec![],
            script: Script::Range,
            poison: vec![],
        }
    }
}

pub fn next_key(mut key: Key) -> Option<Key> {
    for w in key.iter_mut().rev() {
        if *w == Word::MAX {
            *w = Word::MIN;
        } else {
            *w += 1;
            return Some(key);
        }
    }
    None
}

#[derive(Clone, Debug, PartialEq, Serialize)]
pub struct ReadEvent {
    pub seq: u64,
    pub thread: u64,
    /// 0 = pre view, 1 = post view.
    pub view: u8,
    pub contract: ContentAddress,
    pub key: Key,
    pub count: usize,
}

#[derive(Debug, Default)]
pub struct SpyLog {
    pub seq: AtomicU64,
    pub events: Mutex<Vec<ReadEvent>>,
    /// 0 = no delays.
    pub delay_seed: AtomicU64,
}

pub fn thread_tag() -> u64 {
    use std::hash::{Hash, Hasher};
    let mut h = std::collections::hash_map::DefaultHasher::new();
    std::thread::current().id().hash(&mut h);
    h.finish()
}

/// Seeded busy-wait / yield used to perturb schedules from inside tasks.
pub fn inject_delay(seed: u64, n: u64) {
    if seed == 0 {
        return;
    }
    let h = crate::rng::mix(seed, n);
    match h % 8 {
        0 | 1 => std::thread::yield_now(),
        2 => {
            let until = std::time::Instant::now() + std::time::Duration::from_micros(h >> 8 & 0x7f);
            while std::time::Instant::now() < until {
                std::hint::spin_loop();
            }
        }
        3 => std::thread::sleep(std::time::Duration::from_micros(h >> 8 & 0x3f)),
        _ => {}
    }
}

impl SpyLog {
    pub fn take(&self) -> Vec<ReadEvent> {
        std::mem::take(&mut *self.events.lock().unwrap())
    }
    pub fn len(&self) -> usize {
        self.events.lock().unwrap().len()
    }
    pub fn last(&self) -> Option<ReadEvent> {
        self.events.lock().unwrap().last().cloned()
    }
}

#[derive(Clone, Debug)]
pub struct View {
    pub which: u8,
    pub map: Arc<BTreeMap<(ContentAddress, Key), Value>>,
    pub script: Arc<Script>,
    pub poison: Arc<std::collections::BTreeSet<(ContentAddress, Key)>>,
    pub log: Arc<SpyLog>,
}

impl View {
    pub fn new(which: u8, spec: &ViewSpec, log: Arc<SpyLog>) -> Self {
        let map = spec
            .entries
            .iter()
            .map(|(c, k, v)| ((c.clone(), k.clone()), v.clone()))
            .collect();
        View {
            which,
            map: Arc::new(map),
            script: Arc::new(spec.script.clone()),
            poison: Arc::new(spec.poison.iter().cloned().collect()),
            log,
        }
    }

    /// The answer this view gives; pure, also used by the reference model.
    pub fn answer(&self, contract: &ContentAddress, key: &Key, n: usize) -> Result<Vec<Value>, String> {
        match &*self.script {
            Script::Fail(e) => Err(e.clone()),
            Script::Fixed(vs) => Ok(vs.clone()),
            Script::Range => {
                let mut out = Vec::new();
                let mut key = key.clone();
                for _ in 0..n.min(RANGE_CAP) {
                    if !self.poison.is_empty() && self.poison.contains(&(contract.clone(), key.clone())) {
                        return Err(format!("injected state failure at key {key:?}"));
                    }
                    out.push(
                        self.map
                            .get(&(contract.clone(), key.clone()))
                            .cloned()
                            .unwrap_or_default(),
                    );
                    match next_key(key) {
                        Some(k) => key = k,
                        None => break,
                    }
                }
                Ok(out)
            }
        }
    }
}

impl StateRead for View {
    type Error = String;
    fn key_range(&self, contract: ContentAddress, key: Key, n: usize) -> Result<Vec<Vec<Word>>, String> {
        let seq = self.log.seq.fetch_add(1, Ordering::SeqCst);
        self.log.events.lock().unwrap().push(ReadEvent {
            seq,
            thread: thread_tag(),
            view: self.which,
            contract: contract.clone(),
            key: key.clone(),
            count: n,
        });
        inject_delay(self.log.delay_seed.load(Ordering::Relaxed), seq);
        self.answer(&contract, &key, n)
    }
}

#[derive(Clone, Debug)]
pub struct Views {
    pub pre: View,
    pub post: View,
}

impl Views {
    pub fn new(pre: &ViewSpec, post: &ViewSpec) -> (Views, Arc<SpyLog>) {
        let log = Arc::new(SpyLog::default());
        (
            Views {
                pre: View::new(0, pre, log.clone()),
                post: View::new(1, post, log.clone()),
            },
            log,
        )
    }
}

impl StateReads for Views {
    type Error = String;
    type Pre = View;
    type Post = View;
    fn pre(&self) -> &View {
        &self.pre
    }
    fn post(&self) -> &View {
        &self.post
    }
}
