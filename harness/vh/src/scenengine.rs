//! Scenario engine: drives the real two-pass checker over generated solution sets and judges
//! every run against the reference graph evaluator, the beacon log and the node spy.

use crate::{
    report::Report,
    rng::Rng,
    scen::{self, check_beacons, check_node_inputs, compare_verdict, order_signature, reference, run_two_pass, run_two_phase_manual, Issue, NodeSpy, RealVerdict, RefVerdict, Scenario},
    scengen::{self, GenOpts},
    vmcase::Pools,
    Args,
};
use essential_check::solution as sol;
use essential_hash::content_addr;
use essential_types::{solution::SolutionSet, Word};
use serde_json::json;
use std::{
    collections::{BTreeMap, BTreeSet},
    sync::{atomic::Ordering, Arc},
};

/// Thorough tier: occasionally generate graphs with 200 / 999 / 1000 nodes.
static BIG_GRAPHS: std::sync::atomic::AtomicU8 = std::sync::atomic::AtomicU8::new(0);

pub const D2_SIGNATURE: &str = "D2:two-solutions-same-contract-same-key-different-values";

struct Eng<'a> {
    rep: &'a mut Report,
    spy: Arc<NodeSpy>,
    pools: Pools,
    orders: BTreeSet<u64>,
    /// Leaf input digests of the most recent run (for cross-run comparisons).
    last_digests: BTreeMap<(Word, Word), Vec<Word>>,
}

fn case_json(sc: &Scenario, extra: serde_json::Value) -> serde_json::Value {
    json!({"engine": "scen", "scenario": sc, "extra": extra})
}

fn expected_obs(info: &scen::RefInfo) -> BTreeMap<(Word, Word, usize), Vec<Word>> {
    let mut m = BTreeMap::new();
    let mut k: BTreeMap<(Word, Word), usize> = BTreeMap::new();
    for b in info.ref_beacons.iter().filter(|b| b.kind == scen::B_OBS) {
        let i = k.entry((b.tag, b.node)).or_insert(0);
        m.insert((b.tag, b.node, *i), b.payload.clone());
        *i += 1;
    }
    m
}

impl<'a> Eng<'a> {
    /// Reference + one real run + all oracles. Returns (reference verdict, real verdict).
    fn judge(&mut self, sc: &Scenario, pool: usize, delay_seed: u64, kind: &str) -> (RefVerdict, RealVerdict, scen::RefInfo) {
        let (a, b, c, d) = self.judge_full(sc, pool, delay_seed, kind);
        self.last_digests = d;
        (a, b, c)
    }

    fn judge_full(&mut self, sc: &Scenario, pool: usize, delay_seed: u64, kind: &str) -> (RefVerdict, RealVerdict, scen::RefInfo, BTreeMap<(Word, Word), Vec<Word>>) {
        crate::wal(&|| case_json(sc, json!({"pool": pool, "delay_seed": delay_seed})));
        self.spy.take();
        self.spy.phase.store(0, Ordering::SeqCst);
        let (rv, info) = reference(sc);
        self.spy.phase.store(1, Ordering::SeqCst);
        let p = if pool > 0 { Some(self.pools.get(pool) as &rayon::ThreadPool) } else { None };
        let run = match kind {
            "manual-two-phase" => run_two_phase_manual(sc, p, false),
            "manual-per-solution" => run_two_phase_manual(sc, p, true),
            _ => run_two_pass(sc, sc.solutions.clone(), p, delay_seed),
        };
        let obs = self.spy.take();
        self.rep.evaluations += 1;
        self.rep.count(&format!("workload.{kind}"));
        let mut issues: Vec<Issue> = vec![];
        compare_verdict(sc, &rv, &info, &run.verdict, &mut issues);
        let exp = expected_obs(&info);
        check_beacons(sc, &rv, &info, &run, &exp, &mut issues);
        let unique_tags = (0..sc.solutions.len()).map(|i| sc.tag(i)).collect::<BTreeSet<_>>().len() == sc.solutions.len();
        let (compared, matched) = check_node_inputs(&rv, &obs, &run.beacons, unique_tags, &mut issues);
        // a solution whose graph is cyclic / malformed must be rejected before any of its nodes runs
        if let RefVerdict::Err { failing, .. } = &rv {
            for (si, f) in failing {
                if *f == scen::SolFail::InvalidGraph {
                    let tag = sc.tag(*si);
                    let unique = (0..sc.solutions.len()).filter(|j| sc.tag(*j) == tag).count() == 1;
                    let ran = obs.iter().filter(|o| o.phase == 1 && o.tag == tag).count();
                    if unique && ran > 0 {
                        issues.push(Issue { property: "C01", kind: "partial-evaluation", detail: format!("solution {si} has a cyclic or malformed graph but {ran} of its node programs were started"), seq: u64::MAX });
                    }
                    self.rep.count("invalid_graphs_checked_for_partial_evaluation");
                }
            }
        }
        self.rep.add("node_inputs_compared", compared);
        self.rep.add("node_inputs_matching", matched);
        self.rep.add("beacon_events", run.beacons.len() as u64);
        self.rep.add("observed_value_beacons", run.beacons.iter().filter(|b| b.kind == scen::B_OBS).count() as u64);
        self.rep.add("state_requests_logged", run.events.len() as u64);
        self.rep.add("reference_nodes_evaluated", info.nodes_evaluated);
        self.orders.insert(order_signature(&run));
        for s in &info.shapes {
            self.rep.set("graph_shapes", s.clone());
        }
        match &rv {
            RefVerdict::Ok { .. } => self.rep.count("outcome.ok"),
            RefVerdict::Err { pass, failing } => {
                self.rep.count(&format!("outcome.err.pass{pass}"));
                for f in failing.values() {
                    self.rep.count(match f {
                        scen::SolFail::InvalidGraph => "outcome.fail.invalid_graph",
                        scen::SolFail::Program(_) => "outcome.fail.program",
                        scen::SolFail::Unsat(_) => "outcome.fail.unsatisfied",
                        scen::SolFail::Mutations => "outcome.fail.mutations",
                    });
                }
            }
            RefVerdict::Unspec(why) => self.rep.count(&format!("unspecified.{why}")),
        }
        if info.deferred.iter().any(|d| !d.is_empty()) {
            self.rep.count("scenarios_with_deferred_nodes");
        }
        if info.d2_conflict {
            self.rep.count("scenarios_with_d2_conflict");
        }
        // C16: a returned set must still satisfy the one-mutation-per-slot rule
        if let RealVerdict::Ok { mutations, .. } = &run.verdict {
            let mut set = sc.set();
            for (s, m) in set.solutions.iter_mut().zip(mutations) {
                s.state_mutations = m.clone();
            }
            self.rep.count("returned_sets_revalidated");
            if sol::check_set_state_mutations(&set).is_err() && sol::check_set_state_mutations(&sc.set()).is_ok() {
                issues.push(Issue { property: "C16", kind: "returned-set-invalid", detail: "the returned solution set mutates a key twice in one solution".into(), seq: u64::MAX });
            }
        }
        // attribution by causality: what a program reads from post-state depends on the mutations computed
        // from earlier nodes' data, and what a node receives depends on what its ancestors read. The
        // anomaly that became visible first is the cause; later ones of the other kind are its consequences.
        let first_c03 = issues.iter().filter(|i| i.property == "C03" && i.kind == "observed-values").map(|i| i.seq).min();
        let first_c01 = issues.iter().filter(|i| i.property == "C01" && i.kind == "node-input").map(|i| i.seq).min();
        let c03_is_consequence = matches!((first_c01, first_c03), (Some(a), Some(b)) if a < b);
        // (a swallowed state error is both: the read is wrong (C03 / C11) and a program that must fail does not (C01))
        let has_c03 = issues.iter().any(|i| i.property == "C03" && i.kind != "read-should-have-failed") && !c03_is_consequence;
        for i in issues {
            if c03_is_consequence && i.property == "C03" && i.kind == "observed-values" {
                self.rep.count("suppressed.c03_downstream_of_c01");
                continue;
            }
            if has_c03 && i.property == "C01" && i.kind != "executed-twice" {
                self.rep.count("suppressed.c01_downstream_of_c03");
                continue;
            }
            self.rep.violation(i.property, i.kind, i.detail, case_json(sc, json!({"pool": pool, "delay_seed": delay_seed})));
        }
        let nontrivial = sc.predicates.iter().any(|p| p.nodes.len() >= 2 && !p.edges.is_empty()) && !matches!(rv, RefVerdict::Unspec(_));
        if nontrivial {
            self.rep.nontrivial(sc.hash());
        }
        if self.rep.samples.len() < 3 && nontrivial {
            let v = format!("{:?}", run.verdict);
            self.rep.sample(3, || json!({"workload": kind, "scenario": sc.summary(), "real_verdict": v.chars().take(300).collect::<String>()}));
        }
        let dg = scen::digests(&run.beacons);
        self.rep.add("leaf_digest_beacons", dg.len() as u64);
        (rv, run.verdict, info, dg)
    }
}

fn opts_for(prop: &str, r: &mut Rng) -> GenOpts {
    let mut o = GenOpts::default();
    // graphs at the validator's limits (200 / 999 / 1000 nodes): rare in the quick tier, more in the thorough one
    match BIG_GRAPHS.load(Ordering::Relaxed) {
        2 => o.big_graphs = 0.002,
        1 => o.big_graphs = 0.0004,
        _ => {}
    }
    match prop {
        "C01" => {
            o.p_raw_graph = 0.08;
            o.p_post = *r.pick(&[0.0, 0.2, 0.4]);
        }
        "C02" => {
            o.max_nodes = 12;
            o.max_solutions = 8;
            o.p_mid_sets = 0.01;
            // several failing nodes in one level: which one is reported must not depend on the schedule
            o.p_fail = *r.pick(&[0.04, 0.04, 0.3, 0.6]);
        }
        "C03" => {
            o.p_post = 0.5;
            o.p_data_leaf = 0.4;
            o.p_overlap = 0.02;
            o.p_raw_graph = 0.0;
        }
        "C04" => {
            o.allow_conflicts = r.chance(0.3);
            o.max_solutions = 6;
            o.p_dup_solution = 0.12;
            o.p_mid_sets = 0.02;
            o.p_post = 0.3;
            o.p_raw_graph = 0.02;
        }
        "C06" => {
            o.p_poison = 0.15;
            o.p_raw_graph = 0.5;
            o.hostile_reads = 0.3;
            o.p_post = 0.4;
            o.hostile_outputs = 0.4;
            o.p_fail = 0.2;
            o.p_data_leaf = 0.5;
        }
        "C16" => {
            o.p_overlap = 0.3;
            o.p_data_leaf = 0.6;
            o.p_post = 0.3;
        }
        _ => {}
    }
    o
}

/// The canonical D2 witness (executed on every C04 run).
pub fn d2_witness() -> Scenario {
    use essential_vm::asm::short::*;
    let mut ops = vec![];
    scengen::prelude(&mut ops, 1);
    ops.extend([PUSH(7), PUSH(1), PUSH(1), PUSH(3), ALOC, PKRNG, PUSH(2), LOD, PUSH(5), EQ]);
    let p = scengen::prog(&ops);
    let pred = essential_types::predicate::Predicate {
        nodes: vec![essential_types::predicate::Node { edge_start: u16::MAX, program_address: content_addr(&p) }],
        edges: vec![],
    };
    let contract = essential_types::ContentAddress([0x61; 32]);
    let addr = essential_types::PredicateAddress { contract: contract.clone(), predicate: content_addr(&pred) };
    let s = |v: Word, tag: Word| essential_types::solution::Solution {
        predicate_to_solve: addr.clone(),
        predicate_data: vec![vec![tag]],
        state_mutations: vec![essential_types::solution::Mutation { key: vec![7], value: vec![v] }],
    };
    Scenario {
        predicates: vec![pred],
        programs: vec![vec![p]],
        abs_id: vec![vec![1]],
        contracts: vec![contract],
        solutions: vec![s(5, 1000), s(6, 1001)],
        sol_pred: vec![0, 0],
        pre: Default::default(),
        collect_all: false,
    }
}

/// C04: the same set in another order.
fn permutation_check(e: &mut Eng, sc: &Scenario, r: &mut Rng, canonical: bool) {
    let n = sc.solutions.len();
    let set = sc.set();
    let addr0 = content_addr(&set);
    let cs0 = sol::check_set(&set).is_ok();
    let (rv0, real0, info0) = e.judge(sc, 0, 0, "permutation-base");
    let dg0 = std::mem::take(&mut e.last_digests);
    if !cs0 {
        e.rep.count("sets_rejected_by_check_set");
        return;
    }
    let nperm = if canonical { 1 } else { 3 };
    for k in 0..nperm {
        let mut perm: Vec<usize> = (0..n).collect();
        match k {
            0 => perm.reverse(),
            1 => perm.rotate_left(1),
            _ => r.shuffle(&mut perm),
        }
        if perm.iter().enumerate().all(|(i, p)| i == *p) {
            continue;
        }
        let mut sc2 = sc.clone();
        sc2.solutions = perm.iter().map(|i| sc.solutions[*i].clone()).collect();
        sc2.sol_pred = perm.iter().map(|i| sc.sol_pred[*i]).collect();
        let set2 = sc2.set();
        e.rep.count("permutations");
        let mut diffs: Vec<String> = vec![];
        if content_addr(&set2) != addr0 {
            diffs.push("content address differs".into());
        }
        if sol::check_set(&set2).is_ok() != cs0 {
            diffs.push("check_set verdict differs".into());
        }
        let (_rv2, real2, info2) = e.judge(&sc2, 0, 0, "permutation");
        let dg2 = std::mem::take(&mut e.last_digests);
        if matches!((&real0, &real2), (RealVerdict::Ok { .. }, RealVerdict::Ok { .. })) && dg0 != dg2 {
            diffs.push(format!("{} leaves received different data", dg0.iter().filter(|(k, v)| dg2.get(*k) != Some(*v)).count()));
        }
        match (&real0, &real2) {
            (RealVerdict::Ok { gas: g0, mutations: m0 }, RealVerdict::Ok { gas: g2, mutations: m2 }) => {
                if g0 != g2 {
                    diffs.push(format!("gas {g0} vs {g2}"));
                }
                for (j, i) in perm.iter().enumerate() {
                    // as multisets: the order inside one solution is C02's business
                    let (mut a, mut b) = (m0[*i].clone(), m2[j].clone());
                    a.sort();
                    b.sort();
                    if a != b {
                        diffs.push(format!("computed mutations of solution {i} differ"));
                        break;
                    }
                }
            }
            (RealVerdict::Err { failing: f0, .. }, RealVerdict::Err { failing: f2, .. }) => {
                let a: BTreeSet<usize> = f0.keys().copied().collect();
                let b: BTreeSet<usize> = f2.keys().map(|j| perm[*j]).collect();
                // decoding errors report only the first solution met: order dependent by design
                let mut_only = f0.values().chain(f2.values()).all(|f| *f == scen::RealFail::Mutations);
                if a != b && !mut_only {
                    diffs.push(format!("failing solutions {a:?} vs {b:?}"));
                }
            }
            (RealVerdict::Panic(_), RealVerdict::Panic(_)) | (RealVerdict::Other(_), RealVerdict::Other(_)) => {}
            (a, b) => diffs.push(format!("verdict {} vs {}", verdict_name(a), verdict_name(b))),
        }
        // the D2 class, looked for in the declared mutations, in the reference's overlay and in what the
        // checker itself returned (declared + computed) for either order
        let returned_conflict = |v: &RealVerdict, s: &Scenario| match v {
            RealVerdict::Ok { mutations, .. } => {
                let mut s2 = s.clone();
                for (sol, m) in s2.solutions.iter_mut().zip(mutations) {
                    sol.state_mutations = m.clone();
                }
                has_conflict(&s2)
            }
            _ => false,
        };
        let conflict = info0.d2_conflict || info2.d2_conflict || has_conflict(sc) || returned_conflict(&real0, sc) || returned_conflict(&real2, &sc2);
        if matches!(rv0, RefVerdict::Unspec(_)) || matches!(_rv2, RefVerdict::Unspec(_)) {
            // e.g. a data output that is not a documented mutation encoding: not judged
            e.rep.count("permutations_not_judged_unspecified");
            continue;
        }
        if !diffs.is_empty() {
            let mut case = case_json(sc, json!({"permutation": perm, "differences": diffs}));
            if conflict {
                case["signature"] = json!(D2_SIGNATURE);
            }
            e.rep.violation("C04", if conflict { "order-dependence-with-key-conflict" } else { "order-dependence" }, format!("reordering the solutions changes the result: {}", diffs.join("; ")), case);
        }
        let _ = &rv0;
    }
    // "an accepted set proposes at most one value per contract and key"
    if has_conflict(sc) {
        let mut case = case_json(sc, json!({"accepted_with_conflict": true}));
        case["signature"] = json!(D2_SIGNATURE);
        e.rep.violation("C04", "accepted-set-with-key-conflict", "check_set accepts a set in which two solutions give one contract/key different values".into(), case);
    }
}

fn verdict_name(v: &RealVerdict) -> &'static str {
    match v {
        RealVerdict::Ok { .. } => "Ok",
        RealVerdict::Err { .. } => "Err",
        RealVerdict::Other(_) => "Err(other)",
        RealVerdict::Panic(_) => "panic",
    }
}

/// Declared mutations of different solutions giving one contract/key different values.
fn has_conflict(sc: &Scenario) -> bool {
    let mut seen: BTreeMap<(essential_types::ContentAddress, Vec<Word>), (usize, Vec<Word>)> = BTreeMap::new();
    for (i, s) in sc.solutions.iter().enumerate() {
        for m in &s.state_mutations {
            let k = (s.predicate_to_solve.contract.clone(), m.key.clone());
            match seen.get(&k) {
                Some((j, v)) if *j != i && *v != m.value => return true,
                _ => {}
            }
            seen.insert(k, (i, m.value.clone()));
        }
    }
    false
}

pub fn run(args: &Args, rep: &mut Report) {
    crate::vmcase::install_panic_hook();
    let spy = NodeSpy::install();
    let thorough = args.tier == "thorough";
    let mut r = Rng::new(crate::rng::mix(args.seed.wrapping_mul(1_000_003) + args.shard as u64, 0x5ce7));
    let scale = |q: f64, t: f64| (((if thorough { t } else { q }) * args.scale) as u64 / args.nshards as u64).max(1);
    let mut e = Eng { rep, spy: spy.clone(), pools: Pools::new(), orders: BTreeSet::new(), last_digests: BTreeMap::new() };
    let instrumented = args.regime == "miri" || args.regime == "tsan" || args.regime == "valgrind-memcheck";
    scengen::TINY.store(args.regime == "miri", Ordering::Relaxed);
    BIG_GRAPHS.store(if instrumented { 0 } else if thorough { 2 } else { 1 }, Ordering::Relaxed);
    match args.prop.as_str() {
        "C01" | "C03" | "C06" | "C16" => {
            let n = scale(30_000.0, 600_000.0);
            for i in 0..n {
                let o = opts_for(&args.prop, &mut r);
                let sc = scengen::gen_scenario(&mut r, &o);
                let pool = *r.pick(&[0usize, 0, 1, 4]);
                e.judge(&sc, pool, 0, "random");
                if (args.prop == "C01" || args.prop == "C03") && i % 4 == 1 {
                    // the two run modes in sequence over a shared cache, harness-owned post-state view
                    e.judge(&sc, pool, 0, "manual-two-phase");
                }
                if (args.prop == "C01" || args.prop == "C03") && i % 4 == 3 {
                    // the single-predicate entry point, once per solution and run mode, own cache per solution
                    e.judge(&sc, pool, 0, "manual-per-solution");
                }
                if args.prop == "C01" && i % 3 == 0 {
                    if let Some(sc2) = scengen::renumber(&mut r, &sc) {
                        let (a, b) = (reference(&sc).0, reference(&sc2).0);
                        e.judge(&sc2, pool, 0, "renumbered");
                        // Programs that look at *where* a word sits (e.g. load memory[2]) legitimately see another
                        // word when the ascending parent order changes with the numbering; everything else must
                        // give the same verdict and gas. Counted, not judged: both graphs are judged against the
                        // reference on their own.
                        match (&a, &b) {
                            (RefVerdict::Ok { gas: g1, .. }, RefVerdict::Ok { gas: g2, .. }) if g1 == g2 => e.rep.count("renumbering.same_reference_verdict"),
                            (RefVerdict::Err { .. }, RefVerdict::Err { .. }) => e.rep.count("renumbering.same_reference_verdict"),
                            (RefVerdict::Unspec(_), _) | (_, RefVerdict::Unspec(_)) => {}
                            _ => e.rep.count("renumbering.order_sensitive_program_changed_verdict"),
                        }
                    }
                }
            }
        }
        "C02" => {
            let miri = args.regime == "miri";
            let pools: &[usize] = if miri { &[1, 3] } else if thorough { &[1, 2, 3, 5, 16] } else { &[1, 2, 5, 16] };
            let seeds = if miri { 1 } else if thorough { 3 } else { 2 };
            let n = if miri { 1 } else { scale(2_000.0, 20_000.0) };
            for _ in 0..n {
                let mut o = opts_for("C02", &mut r);
                if miri {
                    // the interpreter is ~10^4 times slower: one small scenario per shard
                    o.max_nodes = 4;
                    o.max_solutions = 2;
                }
                if instrumented {
                    o.p_mid_sets = 0.0;
                    o.p_mid_graphs = 0.0;
                }
                let sc = scengen::gen_scenario(&mut r, &o);
                let mut first: Option<(RealVerdict, usize, u64)> = None;
                let mut first_dg: Option<BTreeMap<(Word, Word), Vec<Word>>> = None;
                for &p in pools {
                    for s in 0..seeds {
                        let ds = if s == 0 { 0 } else { r.next_u64() | 1 };
                        let (_, real, _) = e.judge(&sc, p, ds, "pool-matrix");
                        let dg = std::mem::take(&mut e.last_digests);
                        if s == 0 && (p == 1 || p == 16) && !miri {
                            // the other entry points (Outputs then Checks over a shared cache) under the same pools
                            let (_, m0, _) = e.judge(&sc, p, 0, "manual-two-phase");
                            let (_, m1, _) = e.judge(&sc, p, 0, "manual-per-solution");
                            if m0 != m1 && !matches!(reference(&sc).0, RefVerdict::Unspec(_)) {
                                e.rep.violation("C02", "entry-points-disagree", format!("check_set_predicates gives {}, check_predicate per solution gives {} (pool {p})", short(&m0), short(&m1)), case_json(&sc, json!({"pools": [p]})));
                            }
                            let m = m0;
                            if let Some((f, p0, _)) = &first {
                                let same = match (f, &m) {
                                    (RealVerdict::Ok { gas: g1, mutations: m1 }, RealVerdict::Ok { gas: g2, mutations: m2 }) => g1 == g2 && m1 == m2,
                                    (RealVerdict::Err { failing: a, .. }, RealVerdict::Err { failing: b, .. }) => a.keys().collect::<Vec<_>>() == b.keys().collect::<Vec<_>>() || a.values().chain(b.values()).all(|x| *x == scen::RealFail::Mutations),
                                    (RealVerdict::Panic(_), RealVerdict::Panic(_)) => true,
                                    _ => false,
                                };
                                if !same && !matches!(reference(&sc).0, RefVerdict::Unspec(_)) {
                                    e.rep.violation("C02", "entry-points-disagree", format!("two-pass under pool {p0} gives {}, Outputs+Checks under pool {p} gives {}", short(f), short(&m)), case_json(&sc, json!({"pools": [p0, p]})));
                                }
                            }
                        }
                        match &first_dg {
                            None => first_dg = Some(dg),
                            Some(d0) => {
                                if *d0 != dg && matches!(real, RealVerdict::Ok { .. }) {
                                    e.rep.violation("C02", "schedule-dependent-node-input", format!("the data reaching the leaves differs between pool sizes / schedules (pool {p}, delay {ds}): {} of {} / {} leaf digests differ", d0.iter().filter(|(k, v)| dg.get(*k) != Some(*v)).count() + dg.keys().filter(|k| !d0.contains_key(*k)).count(), d0.len(), dg.len()), case_json(&sc, json!({"pool": p, "delay_seed": ds})));
                                }
                            }
                        }
                        match &first {
                            None => first = Some((real, p, ds)),
                            Some((f, p0, d0)) => {
                                if *f != real {
                                    e.rep.violation(
                                        "C02",
                                        "schedule-dependent-result",
                                        format!("pool {p0}/delay {d0} gives {}, pool {p}/delay {ds} gives {}", short(f), short(&real)),
                                        case_json(&sc, json!({"pools": [p0, p], "delay_seeds": [d0, ds]})),
                                    );
                                }
                            }
                        }
                    }
                }
                e.rep.count("scenarios_under_pool_matrix");
            }
            for p in pools {
                e.rep.set("pool_sizes", p.to_string());
            }
        }
        "C04" => {
            permutation_check(&mut e, &d2_witness(), &mut r, true);
            let n = scale(10_000.0, 400_000.0);
            for _ in 0..n {
                let o = opts_for("C04", &mut r);
                let sc = scengen::gen_scenario(&mut r, &o);
                if sc.solutions.len() >= 2 {
                    permutation_check(&mut e, &sc, &mut r, false);
                }
            }
        }
        other => e.rep.inconclusive.push(format!("scenario engine has no workload for {other}")),
    }
    let orders = e.orders.len() as u64;
    e.rep.add("distinct_task_orders_this_shard", orders);
    e.rep.add("vm_ops_seen_by_hook", spy.ops_seen.load(Ordering::Relaxed));
    e.rep.set("build_regime", args.regime.clone());
}

fn short(v: &RealVerdict) -> String {
    format!("{v:?}").chars().take(200).collect()
}

pub fn replay(v: &serde_json::Value, rep: &mut Report) {
    crate::vmcase::install_panic_hook();
    let spy = NodeSpy::install();
    let sc: Scenario = match serde_json::from_value(v.get("scenario").cloned().unwrap_or_default()) {
        Ok(s) => s,
        Err(e) => {
            rep.inconclusive.push(format!("cannot read scenario: {e}"));
            return;
        }
    };
    let mut e = Eng { rep, spy, pools: Pools::new(), orders: BTreeSet::new(), last_digests: BTreeMap::new() };
    let mut r = Rng::new(1);
    let pool = v.get("extra").and_then(|x| x.get("pool")).and_then(|p| p.as_u64()).unwrap_or(0) as usize;
    e.judge(&sc, pool, 0, "replay");
    if sc.solutions.len() >= 2 {
        permutation_check(&mut e, &sc, &mut r, false);
    }
    let _ = SolutionSet { solutions: vec![] };
}

/// Debug aid: print what the reference and the real checker make of a recorded scenario.
pub fn explain(v: &serde_json::Value) {
    let sc: Scenario = serde_json::from_value(v.get("scenario").cloned().unwrap_or_default()).expect("scenario");
    let _spy = NodeSpy::install();
    let (rv, info) = reference(&sc);
    println!("reference: {rv:?}");
    println!("deferred: {:?}", info.deferred);
    for b in &info.ref_beacons {
        println!("  ref beacon kind {} tag {} node {} payload {:?}", b.kind, b.tag, b.node, b.payload);
    }
    for (i, s) in sc.solutions.iter().enumerate() {
        println!("solution {i}: pred {} contract {} declared {:?} data {:?}", sc.sol_pred[i], s.predicate_to_solve.contract, s.state_mutations, s.predicate_data);
    }
    let run = run_two_pass(&sc, sc.solutions.clone(), None, 0);
    println!("real: {:?}", run.verdict);
    for (pi, ps) in sc.programs.iter().enumerate() {
        for (ni, p) in ps.iter().enumerate() {
            let ops: Vec<_> = essential_vm::asm::from_bytes(p.0.iter().copied()).filter_map(|o| o.ok()).collect();
            println!("pred {pi} node {ni} (abs {}): {:?}", sc.abs_id[pi][ni], ops.iter().skip(20).map(|o| format!("{o:?}")).collect::<Vec<_>>().join(" "));
        }
    }
}
