//! One VM case = (program, initial machine state, solution data, state views, cost function,
//! gas limit, pool size). Runs it on the real VM under the monitors and judges it against
//! the reference model.

use crate::{
    model::{self, CostFn, Env, Fail, Flow, Machine, Slot},
    report::Report,
    state::{ReadEvent, SpyLog, ViewSpec, Views},
};
use essential_types::{solution::Solution, Word};
use essential_vm::{
    asm::{self, Op},
    error::{ComputeError, ExecError, OpError},
    Access, BytecodeMapped, GasLimit, Memory, OpGasCost, Repeat, Stack, Vm,
};
use serde::{Deserialize, Serialize};
use serde_json::json;
use std::{
    cell::RefCell,
    collections::HashMap,
    sync::{
        atomic::{AtomicBool, AtomicU64, Ordering},
        Arc, Mutex,
    },
};

#[derive(Clone, Debug, Serialize, Deserialize, PartialEq)]
pub struct VmCase {
    /// Program as hex bytecode.
    pub ops: String,
    pub stack: Vec<Word>,
    pub memory: Vec<Word>,
    /// `Some` puts the machine into a compute-child state (depth 1).
    pub parent_memory: Option<Vec<Word>>,
    /// Initial repeat stack (up slots with counter 0, down slots with counter = amount).
    pub repeat: Vec<Slot>,
    /// Initial program counter (a machine that is continued, or entered mid-program / at / past the end).
    #[serde(default)]
    pub pc: usize,
    pub solutions: Vec<Solution>,
    pub index: usize,
    pub pre: ViewSpec,
    pub post: ViewSpec,
    pub cost: CostFn,
    pub limit: u64,
    /// Rayon pool size to run in (0 = global pool).
    pub pool: usize,
    pub delay_seed: u64,
}

impl VmCase {
    pub fn ops(&self) -> Vec<Op> {
        let bytes = hex::decode(&self.ops).expect("case bytecode is hex");
        asm::from_bytes(bytes).collect::<Result<_, _>>().expect("case bytecode parses")
    }
    pub fn set_ops(&mut self, ops: &[Op]) {
        self.ops = hex::encode(asm::to_bytes(ops.iter().copied()).collect::<Vec<u8>>());
    }
    pub fn hash(&self) -> u64 {
        let mut h = crate::rng::fnv(self.ops.as_bytes());
        h = crate::rng::mix(h, crate::rng::fnv_words(&self.stack));
        h = crate::rng::mix(h, self.pc as u64);
        h = crate::rng::mix(h, crate::rng::fnv_words(&self.memory));
        h = crate::rng::mix(h, self.limit);
        h = crate::rng::mix(h, self.repeat.len() as u64 + ((self.parent_memory.is_some() as u64) << 20));
        h
    }
    /// Short human-readable rendering (long stacks abbreviated).
    pub fn summary(&self) -> serde_json::Value {
        fn ab(v: &[Word]) -> serde_json::Value {
            if v.len() <= 12 {
                json!(v)
            } else {
                json!({"len": v.len(), "tail": &v[v.len() - 6..]})
            }
        }
        let ops: Vec<String> = self.ops().iter().map(|o| format!("{o:?}")).collect();
        json!({
            "ops": ops, "stack": ab(&self.stack), "memory": ab(&self.memory),
            "parent_memory": self.parent_memory.as_ref().map(|p| ab(p)),
            "repeat_depth": self.repeat.len(), "cost": match &self.cost { CostFn::Const(c) => json!(c), CostFn::Table(_) => json!("table") },
            "limit": self.limit, "pool": self.pool,
        })
    }
}

// ---------------------------------------------------------------------------------------
// Panic capture

static PANIC_MSG: Mutex<Option<String>> = Mutex::new(None);
/// > 0 while some thread is inside `catch` (panics of the code under test are then recorded, not printed).
static CATCHING: AtomicU64 = AtomicU64::new(0);

pub fn install_panic_hook() {
    std::panic::set_hook(Box::new(|info| {
        let loc = info
            .location()
            .map(|l| format!("{}:{}", l.file(), l.line()))
            .unwrap_or_default();
        let msg = info
            .payload()
            .downcast_ref::<String>()
            .cloned()
            .or_else(|| info.payload().downcast_ref::<&str>().map(|s| s.to_string()))
            .unwrap_or_else(|| "<non-string panic>".into());
        if CATCHING.load(Ordering::SeqCst) == 0 {
            // a panic of the harness itself: make it visible (the driver reports the shard as inconclusive)
            eprintln!("harness panic: {msg} @ {loc}");
        }
        let mut g = PANIC_MSG.lock().unwrap_or_else(|e| e.into_inner());
        if g.is_none() {
            *g = Some(format!("{msg} @ {loc}"));
        }
    }));
}

/// Run `f`, turning a panic into `Err(message @ location)`.
pub fn catch<T>(f: impl FnOnce() -> T) -> Result<T, String> {
    *PANIC_MSG.lock().unwrap_or_else(|e| e.into_inner()) = None;
    CATCHING.fetch_add(1, Ordering::SeqCst);
    let r = std::panic::catch_unwind(std::panic::AssertUnwindSafe(f));
    CATCHING.fetch_sub(1, Ordering::SeqCst);
    match r {
        Ok(v) => Ok(v),
        Err(_) => Err(PANIC_MSG
            .lock()
            .unwrap_or_else(|e| e.into_inner())
            .take()
            .unwrap_or_else(|| "<panic>".into())),
    }
}

// ---------------------------------------------------------------------------------------
// Cost spy

pub struct CostSpy {
    pub f: CostFn,
    pub queries: AtomicU64,
    pub sum: Mutex<u128>,
    /// After this many queries answer `u64::MAX` (circuit breaker; such cases are not judged).
    pub budget: u64,
    pub tripped: AtomicBool,
    pub delay_seed: u64,
}

impl CostSpy {
    pub fn new(f: CostFn, budget: u64, delay_seed: u64) -> Self {
        CostSpy {
            f,
            queries: AtomicU64::new(0),
            sum: Mutex::new(0),
            budget,
            tripped: AtomicBool::new(false),
            delay_seed,
        }
    }
}

impl OpGasCost for CostSpy {
    fn op_gas_cost(&self, op: &Op) -> u64 {
        let q = self.queries.fetch_add(1, Ordering::SeqCst);
        if q >= self.budget {
            self.tripped.store(true, Ordering::SeqCst);
            return u64::MAX;
        }
        crate::state::inject_delay(self.delay_seed, q);
        let c = self.f.cost(op);
        *self.sum.lock().unwrap() += c as u128;
        c
    }
}

// ---------------------------------------------------------------------------------------
// Monitor at the `after_op` hook

/// Which property an op's semantics belongs to.
pub fn op_property(op: &Op) -> &'static str {
    use asm::{Access as A, Stack as S};
    match op {
        Op::Stack(S::Repeat) | Op::Stack(S::RepeatEnd) => "C09",
        Op::Access(A::RepeatCounter) => "C09",
        Op::TotalControlFlow(_) => "C09",
        Op::Stack(_) | Op::Pred(_) | Op::Alu(_) | Op::Memory(_) | Op::ParentMemory(_) => "C08",
        Op::Compute(_) => "C10",
        Op::StateRead(_) => "C11",
        Op::Access(_) | Op::Crypto(_) => "C12",
    }
}

pub fn op_name(op: &Op) -> String {
    match op {
        Op::Stack(asm::Stack::Push(_)) => "Stack(Push)".to_string(),
        o => format!("{o:?}"),
    }
}

#[derive(Clone, Debug)]
pub struct Divergence {
    pub property: &'static str,
    pub kind: &'static str,
    pub detail: String,
    /// Detected at, or at the first op after, a Compute: the cause may lie inside a child.
    pub after_compute: bool,
}

pub struct LockStep {
    /// Further properties the same divergence violates (reported next to the primary attribution).
    pub secondary: Vec<(&'static str, &'static str, String)>,
    vm_addr: usize,
    pub m: Machine,
    ops: Arc<Vec<Op>>,
    solutions: Arc<Vec<Solution>>,
    index: usize,
    views: Views,
    cost: CostFn,
    limit: u64,
    depth: usize,
    gas: u128,
    executed: u64,
    children: u64,
    log: Arc<SpyLog>,
    log_seen: usize,
    pub steps_checked: u64,
    pub stopped: Option<&'static str>,
    pub divergence: Option<Divergence>,
    pub last_op: Option<Op>,
    /// Model state before the most recent Compute op and the real repeat stack (for diagnosis).
    pub last_compute: Option<(Machine, Repeat)>,
    pub finished: bool,
}

thread_local! {
    static LOCKSTEP: RefCell<Option<LockStep>> = const { RefCell::new(None) };
}

#[derive(Default)]
pub struct Monitor {
    pub ok: Vec<AtomicU64>,
    pub failed: Vec<AtomicU64>,
    pub max_stack: AtomicU64,
    pub max_memory: AtomicU64,
    pub max_repeat: AtomicU64,
    pub max_depth: AtomicU64,
    pub child_ops: AtomicU64,
    pub bound_violations: Mutex<Vec<String>>,
}

impl Monitor {
    pub fn new() -> Arc<Self> {
        Arc::new(Monitor {
            ok: (0..256).map(|_| AtomicU64::new(0)).collect(),
            failed: (0..256).map(|_| AtomicU64::new(0)).collect(),
            ..Default::default()
        })
    }
    pub fn install(self: &Arc<Self>) {
        essential_vm::verif::set_observer(Some(self.clone()));
    }
}

fn amax(a: &AtomicU64, v: u64) {
    a.fetch_max(v, Ordering::Relaxed);
}

/// Address and nesting depth of the top-level `Vm` of the case being executed (one case at a time per process).
/// Lets the monitor know the *actual* compute nesting of any `Vm` it sees, independently of the
/// `parent_memory` field the implementation uses for that purpose.
static TOP_VM: std::sync::atomic::AtomicUsize = std::sync::atomic::AtomicUsize::new(0);
static TOP_DEPTH: std::sync::atomic::AtomicUsize = std::sync::atomic::AtomicUsize::new(0);

impl essential_vm::verif::StepObserver for Monitor {
    fn after_op(&self, vm: &Vm, op: &Op, gas_spent: u64, failed: bool) {
        use essential_vm::asm::ToOpcode;
        // (0) a Compute that succeeded on a Vm which is itself a compute child ran grandchildren: depth 2.
        let top = TOP_VM.load(Ordering::Relaxed);
        if top != 0 && !failed && matches!(op, Op::Compute(asm::Compute::Compute)) {
            let actual = TOP_DEPTH.load(Ordering::Relaxed) + usize::from(vm as *const Vm as usize != top);
            if actual >= 1 {
                let mut g = self.bound_violations.lock().unwrap();
                if g.len() < 8 {
                    g.push(format!(
                        "Compute at pc {} succeeded on a Vm that is itself a compute child: its children ran at nesting depth {} (the Vm reports parent_memory.len() = {})",
                        vm.pc,
                        actual + 1,
                        vm.parent_memory.len()
                    ));
                }
            }
        }
        // (1) resource bounds, on every VM on every thread.
        let (sl, ml, rd, pd) = (
            vm.stack.len(),
            vm.memory.len().unwrap_or(Word::MAX) as usize,
            vm.repeat.depth(),
            vm.parent_memory.len(),
        );
        amax(&self.max_stack, sl as u64);
        amax(&self.max_memory, ml as u64);
        amax(&self.max_repeat, rd as u64);
        amax(&self.max_depth, pd as u64);
        if sl > model::STACK_MAX || ml > model::MEM_MAX || rd > model::REPEAT_MAX || pd > 1 {
            let mut g = self.bound_violations.lock().unwrap();
            if g.len() < 8 {
                g.push(format!(
                    "after {op:?} at pc {}: stack {sl}, memory {ml}, repeat depth {rd}, compute depth {pd}",
                    vm.pc
                ));
            }
        }
        // (2) what was executed.
        let b = u8::from(op.to_opcode()) as usize;
        if failed {
            self.failed[b].fetch_add(1, Ordering::Relaxed);
        } else {
            self.ok[b].fetch_add(1, Ordering::Relaxed);
        }
        if pd > 0 {
            self.child_ops.fetch_add(1, Ordering::Relaxed);
        }
        // (3) lock-step against the model, for the VM registered on this thread.
        LOCKSTEP.with(|ls| {
            let Ok(mut g) = ls.try_borrow_mut() else { return };
            let Some(ls) = g.as_mut() else { return };
            if ls.vm_addr != vm as *const Vm as usize || ls.stopped.is_some() || ls.divergence.is_some() {
                return;
            }
            ls.check(vm, op, gas_spent, failed);
        });
    }
}

impl LockStep {
    fn diverge(&mut self, property: &'static str, kind: &'static str, detail: String) {
        let after_compute = matches!(self.last_op, Some(Op::Compute(asm::Compute::Compute)));
        self.divergence = Some(Divergence { property, kind, detail, after_compute });
    }

    fn check(&mut self, vm: &Vm, op: &Op, gas_spent: u64, failed: bool) {
        // The pc the real VM is at must be where the model is (checks the previous op's flow).
        if vm.pc != self.m.pc {
            let prev = self.last_op;
            let p = prev.as_ref().map(op_property).unwrap_or("C09");
            let p = if p == "C08" || p == "C11" || p == "C12" { "C09" } else { p };
            return self.diverge(
                p,
                "pc-mismatch",
                format!("after {prev:?} the VM is at pc {} but the reference is at pc {}", vm.pc, self.m.pc),
            );
        }
        if self.ops.get(self.m.pc) != Some(op) {
            return self.diverge(
                "C14",
                "op-mismatch",
                format!("VM executed {op:?} at pc {} but the program has {:?}", vm.pc, self.ops.get(self.m.pc)),
            );
        }
        let ops = self.ops.clone();
        let sols = self.solutions.clone();
        let views = self.views.clone();
        let cost = self.cost.clone();
        let mut env = Env::new(&ops, &sols, self.index, &views, &cost, self.limit);
        env.gas = self.gas;
        env.executed = self.executed;
        env.children = self.children;
        // gas
        match env.charge(op) {
            Ok(()) => {}
            Err(Fail::OutOfGas) => {
                return self.diverge(
                    "C07",
                    "executed-beyond-limit",
                    format!("{op:?} at pc {} was executed although spent {} + cost {} exceeds the limit {}", vm.pc, self.gas, cost.cost(op), self.limit),
                );
            }
            Err(_) => {
                self.stopped = Some("step-cap");
                return;
            }
        }
        if env.gas != gas_spent as u128 {
            return self.diverge(
                "C07",
                "gas-mismatch",
                format!("at pc {} ({op:?}) the VM has spent {gas_spent}, the reference {}", vm.pc, env.gas),
            );
        }
        if matches!(op, Op::Compute(asm::Compute::Compute)) {
            self.last_compute = Some((self.m.clone(), vm.repeat.clone()));
        }
        let reads_before = env.reads.len();
        let r = model::step(&mut self.m, *op, &mut env, self.depth);
        self.gas = env.gas;
        self.executed = env.executed;
        self.children = env.children;
        self.last_op = Some(*op);
        self.steps_checked += 1;
        let prop = op_property(op);
        // state request check (top-level op: the log grew by exactly this request)
        if env.reads.len() == reads_before + 1 && !matches!(op, Op::Compute(_)) {
            let exp = env.reads.last().unwrap();
            let now = self.log.len();
            let last = self.log.last();
            let ok = now == self.log_seen + 1
                && last.as_ref().is_some_and(|e| {
                    e.view == exp.view && e.contract == exp.contract && e.key == exp.key && e.count == exp.count
                });
            if !ok {
                return self.diverge(
                    "C11",
                    "wrong-request",
                    format!("{op:?} at pc {}: expected one request {exp:?}, observed {} new request(s), last {last:?}", vm.pc, now - self.log_seen.min(now)),
                );
            }
        }
        self.log_seen = self.log.len();
        match r {
            Err(Fail::Unspec(why)) => {
                self.stopped = Some(why);
            }
            Err(Fail::Err) | Err(Fail::OutOfGas) => {
                self.finished = true;
                if !failed {
                    let over = vm.stack.len() > model::STACK_MAX || vm.memory.len().unwrap_or(Word::MAX) as usize > model::MEM_MAX;
                    let data_op = matches!(op, Op::Stack(_) | Op::Memory(_) | Op::Compute(_));
                    if r == Err(Fail::OutOfGas) && env.child_alone_oog && matches!(op, Op::Compute(_)) {
                        // one child runs out of gas all by itself: "any child error fails the parent" (C10) is
                        // broken as well as the limit (C07)
                        self.secondary.push(("C10", "child-error-swallowed", format!("{op:?} at pc {} succeeded although one of its children alone needs more gas than was left at the fork", vm.pc)));
                    }
                    let (p, k) = if r == Err(Fail::OutOfGas) {
                        ("C07", "children-beyond-limit")
                    } else if over && !data_op {
                        // the op itself did what it should; the machine let it grow past a limit
                        ("C05", "bound-exceeded")
                    } else {
                        (prop, "should-fail")
                    };
                    self.diverge(p, k, format!("{op:?} at pc {} succeeded but the reference says it must fail; stack tail {:?}", vm.pc, tail(&vm.stack)));
                }
            }
            Ok(flow) => {
                if failed {
                    return self.diverge(prop, "unexpected-failure", format!("{op:?} at pc {} failed but the reference says it succeeds with stack tail {:?}", vm.pc, tail(&self.m.stack)));
                }
                if vm.stack[..] != self.m.stack[..] || vm.memory[..] != self.m.mem[..] || vm.repeat.depth() != self.m.rep.len() {
                    return self.diverge(
                        prop,
                        "state-mismatch",
                        format!(
                            "after {op:?} at pc {}: VM stack(len {}) tail {:?} memory(len {}) {} repeat depth {} | reference stack(len {}) tail {:?} memory(len {}) {} repeat depth {}",
                            vm.pc, vm.stack.len(), tail(&vm.stack), vm.memory.len().unwrap_or(-1), first_diff(&vm.memory, &self.m.mem), vm.repeat.depth(),
                            self.m.stack.len(), tail(&self.m.stack), self.m.mem.len(), first_diff(&self.m.mem, &vm.memory), self.m.rep.len()
                        ),
                    );
                }
                match flow {
                    Flow::Next => self.m.pc += 1,
                    Flow::Pc(p) => self.m.pc = p,
                    Flow::Halt => self.finished = true,
                    Flow::ComputeEnd => {
                        self.m.pc += 1;
                        self.finished = true;
                    }
                }
            }
        }
    }
}

fn tail(v: &[Word]) -> Vec<Word> {
    v[v.len().saturating_sub(8)..].to_vec()
}

fn first_diff(a: &[Word], b: &[Word]) -> String {
    for i in 0..a.len().max(b.len()) {
        if a.get(i) != b.get(i) {
            return format!("first difference at [{i}]: {:?} vs {:?}", a.get(i), b.get(i));
        }
    }
    "equal".into()
}

// ---------------------------------------------------------------------------------------
// Running the real VM

pub fn root_is_oog<E>(e: &OpError<E>) -> bool {
    match e {
        OpError::OutOfGas(_) => true,
        OpError::Compute(ComputeError::Exec(inner)) => root_is_oog(&inner.1),
        _ => false,
    }
}

pub fn in_compute<E>(e: &OpError<E>) -> bool {
    matches!(e, OpError::Compute(ComputeError::Exec(_)))
}

#[derive(Debug)]
pub struct RealErr {
    pub index: usize,
    pub oog: bool,
    pub top_level_oog: bool,
    pub text: String,
    pub full_text: String,
}

pub struct RealOut {
    pub res: Result<Result<u64, RealErr>, String>,
    pub vm: Vm,
    pub queries: u64,
    pub cost_sum: u128,
    pub tripped: bool,
    pub lock: Option<LockStep>,
    pub reads: Vec<ReadEvent>,
}

pub fn conv_err(e: ExecError<String>) -> RealErr {
    let full_text = format!("{e:?}");
    let text: String = full_text.chars().take(300).collect();
    RealErr {
        index: e.0,
        oog: root_is_oog(&e.1),
        top_level_oog: matches!(e.1, OpError::OutOfGas(_)),
        text,
        full_text,
    }
}

pub struct Pools(HashMap<usize, rayon::ThreadPool>);

impl Pools {
    pub fn new() -> Self {
        Pools(HashMap::new())
    }
    pub fn get(&mut self, n: usize) -> &rayon::ThreadPool {
        self.0.entry(n).or_insert_with(|| {
            rayon::ThreadPoolBuilder::new()
                .num_threads(n)
                .build()
                .expect("thread pool")
        })
    }
}

impl Default for Pools {
    fn default() -> Self {
        Self::new()
    }
}

pub fn build_repeat(slots: &[Slot]) -> Repeat {
    let mut r = Repeat::new();
    for s in slots {
        match s.up_limit {
            Some(l) => r.repeat_to(s.idx, l).expect("initial repeat stack within bounds"),
            None => r.repeat_from(s.idx, s.counter).expect("initial repeat stack within bounds"),
        }
    }
    r
}

/// The initial state of a case is put together with the code under test (`Stack` / `Memory` / `Repeat`
/// constructors). All generated initial states are within the documented limits (4096 / 10240 words, 4096 active
/// loops): a constructor that refuses one is itself a witness, not a harness error.
pub fn initial_state_refused(case: &VmCase) -> Option<(&'static str, String)> {
    if let Err(e) = Stack::try_from(case.stack.clone()) {
        return Some(("C08", format!("a stack of {} words (limit 4096) is refused: {e}", case.stack.len())));
    }
    if let Err(e) = Memory::try_from(case.memory.clone()) {
        return Some(("C08", format!("a memory of {} words (limit 10240) is refused: {e}", case.memory.len())));
    }
    if let Some(p) = &case.parent_memory {
        if let Err(e) = Memory::try_from(p.clone()) {
            return Some(("C08", format!("a parent memory of {} words (limit 10240) is refused: {e}", p.len())));
        }
    }
    let mut r = Repeat::new();
    for (k, s) in case.repeat.iter().enumerate() {
        let res = match s.up_limit {
            Some(l) => r.repeat_to(s.idx, l),
            None => r.repeat_from(s.idx, s.counter),
        };
        if let Err(e) = res {
            return Some(("C09", format!("loop number {} of {} nested loops (limit 4096) cannot be entered: {e}", k + 1, case.repeat.len())));
        }
    }
    None
}

pub fn build_vm(case: &VmCase) -> Vm {
    let mut vm = Vm::default();
    vm.stack = Stack::try_from(case.stack.clone()).expect("initial stack within bounds");
    vm.memory = Memory::try_from(case.memory.clone()).expect("initial memory within bounds");
    if let Some(p) = &case.parent_memory {
        vm.parent_memory = vec![Arc::new(Memory::try_from(p.clone()).expect("parent memory within bounds"))];
    }
    vm.repeat = build_repeat(&case.repeat);
    vm.pc = case.pc;
    vm
}

pub fn build_machine(case: &VmCase) -> Machine {
    Machine {
        pc: case.pc,
        stack: case.stack.clone(),
        mem: case.memory.clone(),
        parent: case.parent_memory.clone().map(Arc::new),
        rep: case.repeat.clone(),
    }
}

pub struct Ctx {
    pub ops: Arc<Vec<Op>>,
    pub solutions: Arc<Vec<Solution>>,
    pub index: usize,
    pub views: Views,
    pub log: Arc<SpyLog>,
    pub cost: CostFn,
    pub limit: u64,
}

/// Execute `vm` on the real implementation with the lock-step monitor registered for it.
#[allow(clippy::too_many_arguments)]
pub fn run_real(
    mut vm: Vm,
    m: Machine,
    depth: usize,
    ctx: &Ctx,
    budget: u64,
    delay_seed: u64,
    pool: Option<&rayon::ThreadPool>,
    mapped: bool,
    lockstep: bool,
) -> RealOut {
    let spy = CostSpy::new(ctx.cost.clone(), budget, delay_seed);
    ctx.log.delay_seed.store(delay_seed, Ordering::Relaxed);
    let access = Access::new(ctx.solutions.clone(), ctx.index as u16);
    let limit = GasLimit {
        per_yield: GasLimit::DEFAULT_PER_YIELD,
        total: ctx.limit,
    };
    let log_seen = ctx.log.len();
    let mut body = || {
        TOP_VM.store(&vm as *const Vm as usize, Ordering::SeqCst);
        TOP_DEPTH.store(depth, Ordering::SeqCst);
        if lockstep {
            LOCKSTEP.with(|ls| {
                *ls.borrow_mut() = Some(LockStep {
                    secondary: vec![],
                    vm_addr: &vm as *const Vm as usize,
                    m: m.clone(),
                    ops: ctx.ops.clone(),
                    solutions: ctx.solutions.clone(),
                    index: ctx.index,
                    views: ctx.views.clone(),
                    cost: ctx.cost.clone(),
                    limit: ctx.limit,
                    depth,
                    gas: 0,
                    executed: 0,
                    children: 0,
                    log: ctx.log.clone(),
                    log_seen,
                    steps_checked: 0,
                    stopped: None,
                    divergence: None,
                    last_op: None,
                    last_compute: None,
                    finished: false,
                })
            });
        }
        let res = catch(|| {
            if mapped && ctx.ops.len() % 2 == 1 {
                // borrowed container
                let bytes: Vec<u8> = asm::to_bytes(ctx.ops.iter().copied()).collect();
                let bm = essential_vm::bytecode::BytecodeMapped::<Op, &[u8]>::try_from(&bytes[..]).expect("serialised ops map");
                vm.exec_bytecode(&bm, access.clone(), &ctx.views, &spy, limit)
            } else if mapped {
                let bm: BytecodeMapped = ctx.ops.iter().copied().collect();
                vm.exec_bytecode(&bm, access.clone(), &ctx.views, &spy, limit)
            } else {
                vm.exec_ops(&ctx.ops, access.clone(), &ctx.views, &spy, limit)
            }
        });
        let lock = LOCKSTEP.with(|ls| ls.borrow_mut().take());
        TOP_VM.store(0, Ordering::SeqCst);
        (res, lock)
    };
    let (res, lock) = match pool {
        Some(p) => p.install(&mut body),
        None => body(),
    };
    let reads = ctx.log.events.lock().unwrap()[log_seen..].to_vec();
    let cost_sum = *spy.sum.lock().unwrap();
    RealOut {
        res: res.map(|r| r.map_err(conv_err)),
        vm,
        queries: spy.queries.load(Ordering::SeqCst),
        cost_sum,
        tripped: spy.tripped.load(Ordering::SeqCst),
        lock,
        reads,
    }
}

#[derive(Clone, Copy, Debug, Default)]
pub struct JudgeOpts {
    /// Also run through `exec_bytecode` and compare (C14).
    pub mapped: bool,
    /// Compare at the after_op hook.
    pub lockstep: bool,
    /// Also run `eval_ops` and compare the boolean / error class (C09).
    pub eval: bool,
}

#[derive(Debug, Default)]
pub struct CaseOutcome {
    pub unspec: Option<&'static str>,
    pub ok: bool,
    pub executed: u64,
    pub children: u64,
}

/// Judge one case. Violations are recorded in `rep` under the property of the oracle that fired.
pub fn judge(case: &VmCase, rep: &mut Report, mon: &Monitor, pools: &mut Pools, opts: JudgeOpts) -> CaseOutcome {
    let ops = Arc::new(case.ops());
    let (views, log) = Views::new(&case.pre, &case.post);
    let ctx = Ctx {
        ops: ops.clone(),
        solutions: Arc::new(case.solutions.clone()),
        index: case.index,
        views,
        log,
        cost: case.cost.clone(),
        limit: case.limit,
    };
    let depth = if case.parent_memory.is_some() { 1 } else { 0 };
    if let Some((property, detail)) = initial_state_refused(case) {
        rep.violation(property, "initial-state-refused", detail, serde_json::to_value(case).unwrap());
        return CaseOutcome::default();
    }

    // Reference run first: decides whether the case is specified and affordable.
    let mut m = build_machine(case);
    let mut env = Env::new(&ops, &ctx.solutions, ctx.index, &ctx.views, &ctx.cost, ctx.limit);
    let mres = model::run(&mut m, &mut env, depth);
    let m_state_error = env.state_error.clone();
    let (mgas, mexec, mchildren, mreads, m_in_child) = (env.gas, env.executed, env.children, env.reads, env.failed_in_child);
    let mut out = CaseOutcome {
        executed: mexec,
        children: mchildren,
        ..Default::default()
    };
    if let Err(Fail::Unspec(why)) = mres {
        rep.count(&format!("unspecified.{why}"));
        out.unspec = Some(why);
        // Not judged against the model - but totality and the resource bounds hold for every input, so
        // the case is still executed (under the cost circuit breaker) unless it could run away.
        if why != "breadth-cap" && why != "step-cap" {
            let pool = if case.pool > 0 { Some(pools.get(case.pool) as &rayon::ThreadPool) } else { None };
            let real = run_real(build_vm(case), build_machine(case), depth, &ctx, 100_000, 0, pool, false, false);
            rep.count("unspecified.executed_for_totality");
            for b in mon.bound_violations.lock().unwrap().drain(..) {
                rep.violation("C05", "bound-exceeded", b, serde_json::to_value(case).unwrap());
            }
            if let Err(panic) = real.res {
                rep.violation("C05", "panic", format!("VM panicked: {panic}"), serde_json::to_value(case).unwrap());
            }
        }
        return out;
    }

    let budget = mexec.saturating_mul(3).saturating_add(20_000);
    let pool = if case.pool > 0 { Some(case.pool) } else { None };
    let real = {
        let p = pool.map(|n| pools.get(n) as &rayon::ThreadPool);
        run_real(build_vm(case), build_machine(case), depth, &ctx, budget, case.delay_seed, p, false, opts.lockstep)
    };
    rep.evaluations += 1;
    let case_json = || serde_json::to_value(case).unwrap();

    // C05: bounds seen at the hook.
    for b in mon.bound_violations.lock().unwrap().drain(..) {
        rep.violation("C05", "bound-exceeded", b, case_json());
    }
    let res = match real.res {
        Err(panic) => {
            rep.violation("C05", "panic", format!("VM panicked: {panic}"), case_json());
            return out;
        }
        Ok(r) => r,
    };
    if real.tripped {
        rep.count("unspecified.cost-breaker");
        out.unspec = Some("cost-breaker");
        return out;
    }
    // bounds on the final state as well
    if real.vm.stack.len() > model::STACK_MAX || real.vm.memory.len().unwrap_or(Word::MAX) as usize > model::MEM_MAX {
        rep.violation("C05", "bound-exceeded", "final state exceeds the stack/memory limit".into(), case_json());
    }

    let mut lock_div = false;
    if let Some(ls) = &real.lock {
        rep.add("lockstep.ops_checked", ls.steps_checked);
        if let Some(why) = ls.stopped {
            rep.count(&format!("unspecified.lockstep.{why}"));
        }
        for (p, k, detail) in &ls.secondary {
            rep.violation(p, k, detail.clone(), case_json());
        }
        if let Some(d) = &ls.divergence {
            lock_div = true;
            let mut d = d.clone();
            if let (Some((pre, repeat)), true) = (&ls.last_compute, d.after_compute) {
                if let Some(inner) = diagnose_compute(pre, repeat, &ctx, rep) {
                    d = Divergence {
                        property: inner.property,
                        kind: inner.kind,
                        detail: format!("inside a compute child: {} (seen at the join as: {})", inner.detail, d.detail),
                        after_compute: false,
                    };
                }
            }
            rep.violation(d.property, d.kind, d.detail, case_json());
        }
    }

    // Final comparison (independent of the hook).
    let mut issues: Vec<(&'static str, &'static str, String)> = vec![];
    if !lock_div {
        match (&mres, &res) {
            (Ok(()), Ok(g)) => {
                out.ok = true;
                rep.count("outcome.ok");
                if *g as u128 != mgas {
                    issues.push(("C07", "gas-mismatch", format!("VM reports gas {g}, reference total is {mgas}")));
                }
                if real.cost_sum != *g as u128 {
                    issues.push(("C07", "gas-not-sum-of-costs", format!("VM reports gas {g} but the cost function handed out {} over {} queries", real.cost_sum, real.queries)));
                }
                if *g > case.limit {
                    issues.push(("C07", "limit-exceeded", format!("Ok({g}) exceeds the limit {}", case.limit)));
                }
                if real.queries != mexec {
                    issues.push(("C10", "op-count-mismatch", format!("{} operations were charged for, the sequential reference executes {mexec}", real.queries)));
                }
                let last = real.lock.as_ref().and_then(|l| l.last_op);
                if real.vm.pc != m.pc {
                    let p = last.as_ref().map(op_property).map(|p| if p == "C10" { "C10" } else { "C09" }).unwrap_or("C09");
                    issues.push((p, "final-pc", format!("final pc {} but the reference ends at {} (last op {last:?})", real.vm.pc, m.pc)));
                } else if real.vm.stack[..] != m.stack[..] || real.vm.memory[..] != m.mem[..] {
                    issues.push(("C08", "final-state", format!("final stack/memory differ: VM stack tail {:?} mem {} | reference stack tail {:?}", tail(&real.vm.stack), first_diff(&real.vm.memory, &m.mem), tail(&m.stack))));
                } else if real.vm.repeat.depth() != m.rep.len() {
                    // ending a run (Halt, HaltIf, end of program) must leave the active loops as they are:
                    // the machine can be inspected and continued afterwards
                    issues.push(("C09", "final-repeat-state", format!("after the run {} loops are active on the VM, {} on the reference (last op {last:?})", real.vm.repeat.depth(), m.rep.len())));
                }
                // exact requests (sequence for programs without children, multiset otherwise)
                let mut got: Vec<_> = real.reads.iter().map(|e| (e.view, e.contract.clone(), e.key.clone(), e.count)).collect();
                let mut exp: Vec<_> = mreads.iter().map(|e| (e.view, e.contract.clone(), e.key.clone(), e.count)).collect();
                if mchildren > 0 {
                    got.sort();
                    exp.sort();
                }
                if got != exp {
                    issues.push(("C11", "request-log", format!("state requests differ: observed {} expected {}", got.len(), exp.len())));
                }
                rep.add("reads.observed", got.len() as u64);
            }
            (Err(f), Err(e)) => {
                rep.count(if e.oog { "outcome.err.out_of_gas" } else { "outcome.err.op" });
                if e.index != m.pc {
                    issues.push((
                        // an out-of-gas error at another op means the gas accounting deviates;
                        // otherwise the VM went somewhere else after its last executed op
                        if real.lock.as_ref().is_some_and(|l| l.stopped.is_none() && l.m.pc != e.index) {
                            flow_property(&real.lock)
                        } else if e.oog || *f == Fail::OutOfGas {
                            "C07"
                        } else {
                            flow_property(&real.lock)
                        },
                        "error-index",
                        format!("error reported at op {} but the failing op is {} ({})", e.index, m.pc, e.text),
                    ));
                }
                // a state error reaches the caller unchanged (top-level reads; a child's error is wrapped by whichever
                // child rayon reports)
                if let (Some(msg), false, true) = (&m_state_error, m_in_child, e.index == m.pc) {
                    if !e.full_text.contains(msg.as_str()) {
                        issues.push(("C11", "state-error-altered", format!("the state view failed with {msg:?} but the VM reports {}", e.text)));
                    }
                    rep.count("state_errors_passed_through");
                }
                if !m_in_child && e.index == m.pc {
                    let m_oog = *f == Fail::OutOfGas;
                    if m_oog != e.oog {
                        issues.push(("C07", "oog-class", format!("reference says out_of_gas={m_oog}, VM error is {}", e.text)));
                    }
                    if m_oog && e.top_level_oog {
                        // the refused op must have had no effect
                        if real.vm.stack[..] != m.stack[..] || real.vm.memory[..] != m.mem[..] || real.vm.pc != m.pc {
                            issues.push(("C07", "oog-state", format!("state after the out-of-gas error differs from the state before the refused op (pc {} vs {})", real.vm.pc, m.pc)));
                        }
                    }
                }
                // bounded progress
                let cmin = case.cost.min_cost();
                if cmin > 0 && case.limit < u64::MAX {
                    let bound = (1 + mchildren as u128 + 1) * (case.limit as u128 / cmin as u128 + 1);
                    if real.queries as u128 > bound {
                        issues.push(("C07", "progress-bound", format!("{} cost queries exceed the bound {bound}", real.queries)));
                    }
                }
            }
            (Ok(()), Err(e)) => {
                // If the VM is not where the reference is after the last executed op, the cause is
                // that op's control flow, not the gas or the op that then failed.
                let diverted = real.lock.as_ref().is_some_and(|l| l.stopped.is_none() && !l.finished && l.m.pc != e.index);
                let p = if diverted { flow_property(&real.lock) } else if e.oog { "C07" } else { ops.get(e.index).map(op_property).unwrap_or("C05") };
                issues.push((p, "unexpected-error", format!("VM failed at op {} ({}) but the reference succeeds with gas {mgas}", e.index, e.text)));
            }
            (Err(f), Ok(g)) => {
                let p = if *f == Fail::OutOfGas { "C07" } else { ops.get(m.pc).map(op_property).unwrap_or("C05") };
                issues.push((p, "missing-error", format!("VM returned Ok({g}) but the reference fails at op {} ({f:?}, limit {})", m.pc, case.limit)));
            }
        }
    }

    let issues_empty = issues.is_empty();
    if !issues.is_empty() {
        // If the last thing the VM did was a Compute, the cause may lie inside a child.
        if let Some(ls) = &real.lock {
            if let (Some((pre, repeat)), Some(Op::Compute(asm::Compute::Compute))) = (&ls.last_compute, ls.last_op) {
                if let Some(inner) = diagnose_compute(pre, repeat, &ctx, rep) {
                    let seen = issues.iter().map(|i| i.1).collect::<Vec<_>>().join(",");
                    issues = vec![(inner.property, inner.kind, format!("inside a compute child: {} (seen at the end as: {seen})", inner.detail))];
                }
            }
        }
        for (p, k, d) in issues {
            rep.violation(p, k, d, case_json());
        }
    }

    // C09: eval = exec + "last word of the final stack is 1 / 0, anything else is an error".
    if opts.eval && !lock_div && issues_empty {
        let (views3, log3) = Views::new(&case.pre, &case.post);
        let spy = CostSpy::new(case.cost.clone(), budget, 0);
        let mut vm = build_vm(case);
        let access = Access::new(ctx.solutions.clone(), ctx.index as u16);
        let _ = log3;
        let r = catch(|| vm.eval_ops(&ops, access, &views3, &spy, GasLimit { per_yield: GasLimit::DEFAULT_PER_YIELD, total: case.limit }));
        rep.count("eval.runs");
        let expect: Result<bool, bool> = match &mres {
            Ok(()) => model::eval_result(&m.stack).ok_or(false),
            Err(_) => Err(true),
        };
        match (r, expect) {
            (Err(p), _) => rep.violation("C05", "panic", format!("eval_ops panicked: {p}"), case_json()),
            (Ok(Ok(b)), Ok(e)) if b == e => rep.count(if b { "eval.true" } else { "eval.false" }),
            (Ok(Err(essential_vm::error::EvalError::InvalidEvaluation(_))), Err(false)) => rep.count("eval.invalid"),
            (Ok(Err(essential_vm::error::EvalError::Exec(_))), Err(true)) => rep.count("eval.exec_error"),
            (Ok(got), exp) => rep.violation(
                "C09",
                "eval-result",
                format!("eval_ops -> {}, but the final stack tail is {:?} (expected {exp:?}; Err(false) = invalid evaluation, Err(true) = execution error)", match &got { Ok(b) => format!("Ok({b})"), Err(e) => format!("Err({})", format!("{e}").chars().take(80).collect::<String>()) }, tail(&m.stack)),
                case_json(),
            ),
        }
    }

    // C14: the mapped-bytecode path must behave identically.
    if opts.mapped && !lock_div {
        let (views2, log2) = Views::new(&case.pre, &case.post);
        let ctx2 = Ctx {
            ops: ops.clone(),
            solutions: ctx.solutions.clone(),
            index: ctx.index,
            views: views2,
            log: log2,
            cost: case.cost.clone(),
            limit: case.limit,
        };
        let p = pool.map(|n| pools.get(n) as &rayon::ThreadPool);
        let real2 = run_real(build_vm(case), build_machine(case), depth, &ctx2, budget, 0, p, true, false);
        rep.count("mapped.runs");
        match (&res, &real2.res) {
            (_, Err(panic)) => rep.violation("C14", "panic", format!("exec_bytecode panicked: {panic}"), case_json()),
            (Ok(g1), Ok(Ok(g2))) => {
                if g1 != g2 || real.vm != real2.vm {
                    rep.violation("C14", "exec-differs", format!("exec_ops -> Ok({g1}) pc {}, exec_bytecode -> Ok({g2}) pc {}; final machines equal: {}", real.vm.pc, real2.vm.pc, real.vm == real2.vm), case_json());
                }
            }
            (Err(e1), Ok(Err(e2))) => {
                // which child's error a failing Compute reports depends on the schedule (rayon hands back any one of
                // them): for errors raised inside a child only the index of the Compute op is compared, not the
                // nested payload or its root-cause class
                let nested = in_child_err(e1) || in_child_err(e2);
                let same_state = nested || real.vm == real2.vm;
                if e1.index != e2.index || (!nested && e1.oog != e2.oog) || !same_state {
                    rep.violation("C14", "exec-differs", format!("exec_ops -> Err at {} ({}), exec_bytecode -> Err at {} ({})", e1.index, e1.text, e2.index, e2.text), case_json());
                }
            }
            (a, Ok(b)) => rep.violation("C14", "exec-differs", format!("exec_ops -> {:?}, exec_bytecode -> {:?}", a.as_ref().map_err(|e| &e.text), b.as_ref().map_err(|e| &e.text)), case_json()),
        }
    }
    out
}

/// Property owning the control flow of the last op the lock-step monitor saw.
fn flow_property(lock: &Option<LockStep>) -> &'static str {
    match lock.as_ref().and_then(|l| l.last_op).as_ref().map(op_property) {
        Some("C10") => "C10",
        _ => "C09",
    }
}

fn in_child_err(e: &RealErr) -> bool {
    e.text.contains("Compute(Exec(")
}

/// A Compute diverged: re-run every child as a stand-alone VM under lock-step to find out
/// whether some op *inside* the children is what deviates (then that op's property is the
/// one violated) or the fork/join itself.
fn diagnose_compute(pre: &Machine, repeat: &Repeat, ctx: &Ctx, rep: &mut Report) -> Option<Divergence> {
    let mut pre = pre.clone();
    let n = pre.stack.pop()?;
    if !(1..=10_000).contains(&n) {
        return None;
    }
    // at most ~300 children are re-run: the first 64 and an even spread over the rest
    let stride = (n / 256).max(1);
    rep.count("compute.diagnosed");
    let dctx = Ctx {
        ops: ctx.ops.clone(),
        solutions: ctx.solutions.clone(),
        index: ctx.index,
        views: ctx.views.clone(),
        log: ctx.log.clone(),
        cost: ctx.cost.clone(),
        limit: u64::MAX,
    };
    for i in (0..n).filter(|i| *i < 64 || i % stride == 0) {
        let mut stack = pre.stack.clone();
        if stack.len() >= model::STACK_MAX {
            return None;
        }
        stack.push(i);
        let m = Machine {
            pc: pre.pc + 1,
            stack: stack.clone(),
            mem: vec![],
            parent: Some(Arc::new(pre.mem.clone())),
            rep: pre.rep.clone(),
        };
        let mut vm = Vm::default();
        vm.pc = pre.pc + 1;
        vm.stack = Stack::try_from(stack).ok()?;
        vm.parent_memory = vec![Arc::new(Memory::try_from(pre.mem.clone()).ok()?)];
        vm.repeat = repeat.clone();
        let out = run_real(vm, m, 1, &dctx, 2_000_000, 0, None, false, true);
        if let Some(d) = out.lock.and_then(|l| l.divergence) {
            return Some(d);
        }
    }
    None
}
