//! Codec engine: bytecode <-> ops bijection against the specification and the pinned table
//! (C13), mapped bytecode vs parsed list (C14), effect analysis (C15).

use crate::{report::Report, rng::Rng, vmcase::catch, Args};
use essential_vm::{
    asm::{self, effects, short::*, FromBytesError, Op, Opcode, ToOpcode},
    BytecodeMapped,
};
use serde_json::json;
use std::collections::BTreeMap;

#[derive(Clone, Debug, PartialEq)]
pub struct SpecOp {
    pub byte: u8,
    /// `Group(Name)` as the generated enums print it.
    pub path: String,
    /// Short constant name (explicit `short:` or the upper-cased op name).
    pub short: String,
    pub arg_bytes: usize,
}

/// Independent reader of `asm.yml`: an indentation parser that only understands what it needs.
pub fn read_spec(yaml: &str) -> Result<Vec<SpecOp>, String> {
    const FIELDS: &[&str] = &["group", "panics", "stack_in", "stack_out", "description", "opcode", "short", "num_arg_bytes", "elem", "len"];
    let mut names: Vec<(usize, String)> = vec![];
    let mut out: Vec<SpecOp> = vec![];
    let mut cur: Option<usize> = None; // index in out of the op whose fields we are reading
    let mut cur_indent = 0usize;
    for line in yaml.lines() {
        let trimmed = line.trim_start();
        if trimmed.is_empty() || trimmed.starts_with('#') {
            continue;
        }
        let indent = line.len() - trimmed.len();
        let (key, val) = match trimmed.split_once(':') {
            Some((k, v)) if k.chars().all(|c| c.is_ascii_alphanumeric() || c == '_') && !k.is_empty() => (k, v.trim()),
            _ => continue,
        };
        if !FIELDS.contains(&key) && val.is_empty() {
            while names.last().is_some_and(|(i, _)| *i >= indent) {
                names.pop();
            }
            names.push((indent, key.to_string()));
            cur = None;
            continue;
        }
        if let Some(ci) = cur {
            if indent < cur_indent {
                cur = None;
            } else {
                match key {
                    "short" if indent == cur_indent => out[ci].short = val.to_string(),
                    "num_arg_bytes" if indent == cur_indent => out[ci].arg_bytes = val.parse().map_err(|_| format!("bad num_arg_bytes {val}"))?,
                    _ => {}
                }
            }
        }
        if key == "opcode" {
            while names.last().is_some_and(|(i, _)| *i >= indent) {
                names.pop();
            }
            let v = val.split('#').next().unwrap().trim();
            let byte = if let Some(h) = v.strip_prefix("0x") { u8::from_str_radix(h, 16) } else { v.parse() }.map_err(|_| format!("bad opcode {val}"))?;
            // path: all names except the root
            let path_names: Vec<&str> = names.iter().skip(1).map(|(_, n)| n.as_str()).collect();
            if path_names.is_empty() {
                return Err("opcode outside of a named op".into());
            }
            let mut path = String::new();
            for n in &path_names {
                if !path.is_empty() {
                    path.push('(');
                }
                path.push_str(n);
            }
            for _ in 1..path_names.len() {
                path.push(')');
            }
            let name = path_names.last().unwrap();
            out.push(SpecOp {
                byte,
                path,
                short: name.to_uppercase(),
                arg_bytes: 0,
            });
            cur = Some(out.len() - 1);
            cur_indent = indent;
        }
    }
    out.sort_by_key(|o| o.byte);
    Ok(out)
}

pub fn table_tsv(spec: &[SpecOp]) -> String {
    let mut s = String::from("# byte\tpath\tshort\timmediate_bytes\n");
    for o in spec {
        s.push_str(&format!("0x{:02X}\t{}\t{}\t{}\n", o.byte, o.path, o.short, o.arg_bytes));
    }
    s
}

pub fn parse_tsv(text: &str) -> Vec<SpecOp> {
    text.lines()
        .filter(|l| !l.starts_with('#') && !l.trim().is_empty())
        .filter_map(|l| {
            let f: Vec<&str> = l.split('\t').collect();
            Some(SpecOp {
                byte: u8::from_str_radix(f.first()?.trim_start_matches("0x"), 16).ok()?,
                path: f.get(1)?.to_string(),
                short: f.get(2)?.to_string(),
                arg_bytes: f.get(3)?.parse().ok()?,
            })
        })
        .collect()
}

/// The short constants the `asm` crate exports, by name.
pub fn short_table() -> Vec<(&'static str, Op)> {
    vec![
        ("PUSH", PUSH(0)), ("POP", POP), ("DUP", DUP), ("DUPF", DUPF), ("SWAP", SWAP), ("SWAPI", SWAPI), ("SEL", SEL),
        ("SLTR", SLTR), ("REP", REP), ("REPE", REPE), ("RES", RES), ("LODS", LODS), ("STOS", STOS), ("DROP", DROP),
        ("EQ", EQ), ("EQRA", EQRA), ("GT", GT), ("LT", LT), ("GTE", GTE), ("LTE", LTE), ("AND", AND), ("OR", OR), ("NOT", NOT),
        ("EQST", EQST), ("BAND", BAND), ("BOR", BOR), ("ADD", ADD), ("SUB", SUB), ("MUL", MUL), ("DIV", DIV), ("MOD", MOD),
        ("SHL", SHL), ("SHR", SHR), ("SHRI", SHRI), ("THIS", THIS), ("THISC", THISC), ("REPC", REPC), ("DATA", DATA),
        ("DLEN", DLEN), ("DSLT", DSLT), ("PEX", PEX), ("SHA2", SHA2), ("VRFYED", VRFYED), ("RSECP", RSECP), ("HLT", HLT),
        ("HLTIF", HLTIF), ("JMPIF", JMPIF), ("PNCIF", PNCIF), ("ALOC", ALOC), ("FREE", FREE), ("LOD", LOD), ("STO", STO),
        ("LODR", LODR), ("STOR", STOR), ("LODP", LODP), ("LODPR", LODPR), ("KRNG", KRNG), ("KREX", KREX), ("PKRNG", PKRNG),
        ("PKREX", PKREX), ("COM", COM), ("COME", COME),
    ]
}

/// `Group(Name)` of an op, immediates stripped.
pub fn op_path(op: &Op) -> String {
    format!("{:?}", op.to_opcode())
}

#[derive(Debug, PartialEq, Clone)]
pub enum OwnErr {
    InvalidOpcode(u8),
    NotEnoughBytes,
}

/// Own decoder driven by a table: the ops before the first error, and that error.
pub fn own_decode(table: &BTreeMap<u8, SpecOp>, bytes: &[u8]) -> (Vec<(u8, Vec<u8>)>, Option<OwnErr>) {
    let mut out = vec![];
    let mut i = 0;
    while i < bytes.len() {
        let b = bytes[i];
        let Some(spec) = table.get(&b) else {
            return (out, Some(OwnErr::InvalidOpcode(b)));
        };
        if i + 1 + spec.arg_bytes > bytes.len() {
            return (out, Some(OwnErr::NotEnoughBytes));
        }
        out.push((b, bytes[i + 1..i + 1 + spec.arg_bytes].to_vec()));
        i += 1 + spec.arg_bytes;
    }
    (out, None)
}

fn real_err(e: &FromBytesError) -> OwnErr {
    match e {
        FromBytesError::InvalidOpcode(asm::InvalidOpcodeError(b)) => OwnErr::InvalidOpcode(*b),
        FromBytesError::NotEnoughBytes(_) => OwnErr::NotEnoughBytes,
    }
}

pub struct Codec {
    pub table: BTreeMap<u8, SpecOp>,
}

impl Codec {
    /// All oracles on one byte string. `props` selects which properties' oracles run.
    pub fn check_bytes(&self, bytes: &[u8], rep: &mut Report, props: &[&str]) {
        let case = || json!({"engine": "codec", "bytes": hex::encode(bytes)});
        crate::wal(&case);
        rep.evaluations += 1;
        let (own, own_err) = own_decode(&self.table, bytes);
        // --- parse
        let parsed = catch(|| {
            let mut ops = vec![];
            let mut err = None;
            for r in asm::from_bytes(bytes.iter().copied()) {
                match r {
                    Ok(op) => ops.push(op),
                    Err(e) => {
                        err = Some(real_err(&e));
                        break;
                    }
                }
            }
            (ops, err)
        });
        let (ops, err) = match parsed {
            Ok(x) => x,
            Err(p) => {
                if props.contains(&"C13") {
                    rep.violation("C13", "panic", format!("from_bytes panicked: {p}"), case());
                }
                return;
            }
        };
        if err.is_none() {
            rep.count("bytes.valid");
            if ops.len() >= 2 {
                rep.nontrivial(crate::rng::fnv(bytes));
            }
        } else {
            rep.count(match err {
                Some(OwnErr::InvalidOpcode(_)) => "bytes.invalid_opcode",
                _ => "bytes.truncated",
            });
            if !ops.is_empty() {
                rep.nontrivial(crate::rng::fnv(bytes));
            }
        }
        if props.contains(&"C13") {
            if err != own_err {
                rep.violation("C13", "error-kind", format!("from_bytes -> {err:?}, specification -> {own_err:?}"), case());
            }
            if ops.len() != own.len() {
                rep.violation("C13", "op-count", format!("from_bytes yields {} ops before the end/error, specification {}", ops.len(), own.len()), case());
            } else {
                for (i, (op, (b, args))) in ops.iter().zip(&own).enumerate() {
                    let spec = &self.table[b];
                    let ok_path = op_path(op) == spec.path;
                    let ok_byte = u8::from(op.to_opcode()) == *b;
                    let ok_imm = match op {
                        Op::Stack(asm::Stack::Push(w)) => args.len() == 8 && *w == i64::from_be_bytes(args[..].try_into().unwrap()),
                        _ => args.is_empty(),
                    };
                    if !(ok_path && ok_byte && ok_imm) {
                        rep.violation("C13", "wrong-op", format!("op {i}: bytes {b:#04x} {args:?} parsed as {op:?}, specification says {}", spec.path), case());
                        break;
                    }
                }
            }
            if err.is_none() {
                let ser: Vec<u8> = asm::to_bytes(ops.iter().copied()).collect();
                if ser != bytes {
                    rep.violation("C13", "not-bijective", format!("parsed ops serialise to {} instead of the input", hex::encode(&ser)), case());
                }
            } else {
                // the valid prefix must still serialise to the bytes it was parsed from
                let ser: Vec<u8> = asm::to_bytes(ops.iter().copied()).collect();
                if !bytes.starts_with(&ser) {
                    rep.violation("C13", "not-bijective", "ops parsed before the error do not serialise to the prefix they came from".into(), case());
                }
            }
        }
        // --- mapped bytecode
        if props.contains(&"C14") {
            let owned = catch(|| BytecodeMapped::try_from(bytes.to_vec()));
            let borrowed = catch(|| essential_vm::bytecode::BytecodeMapped::<Op, &[u8]>::try_from(bytes).map(|m| (m.ops().collect::<Vec<_>>(), m.op_indices().to_vec())));
            match (&owned, &borrowed) {
                (Err(p), _) | (_, Err(p)) => rep.violation("C14", "panic", format!("BytecodeMapped::try_from panicked: {p}"), case()),
                (Ok(o), Ok(b)) => {
                    let oe = o.as_ref().err().map(real_err);
                    let be = b.as_ref().err().map(real_err);
                    if oe != err || be != err {
                        rep.violation("C14", "mapping-verdict", format!("parse -> {err:?}, mapped(owned) -> {oe:?}, mapped(borrowed) -> {be:?}"), case());
                    }
                    if let (Ok(m), Ok((bops, bidx))) = (o, b) {
                        rep.count("mapped.ok");
                        let r = catch(|| {
                            let mops: Vec<Op> = m.ops().collect();
                            let by_ix: Vec<Option<Op>> = (0..ops.len() + 2).map(|i| m.op(i)).collect();
                            // every start index for short programs; for long ones the first and last 24 and a stride
                            // in between (the tails are quadratic in the program length)
                            let n = ops.len();
                            let stride = (n / 24).max(1);
                            let tail: Vec<(usize, Vec<Op>)> = (0..=n)
                                .filter(|k| n <= 64 || *k < 24 || *k + 24 > n || *k % stride == 0)
                                .map(|k| (k, m.ops_from(k).map(|s| s.ops().collect()).unwrap_or_default()))
                                .collect();
                            let beyond = m.ops_from(ops.len() + 1).is_none();
                            let slice_ops: Vec<Op> = m.as_slice().ops().collect();
                            (mops, by_ix, tail, beyond, slice_ops)
                        });
                        match r {
                            Err(p) => rep.violation("C14", "panic", format!("mapped accessors panicked: {p}"), case()),
                            Ok((mops, by_ix, tail, beyond, slice_ops)) => {
                                let mut bad = vec![];
                                if mops != ops { bad.push("ops()"); }
                                if *bops != ops { bad.push("borrowed ops()"); }
                                if slice_ops != ops { bad.push("as_slice().ops()"); }
                                if by_ix.iter().enumerate().any(|(i, o)| *o != ops.get(i).copied()) { bad.push("op(i)"); }
                                if tail.iter().any(|(k, t)| t[..] != ops[*k..]) { bad.push("ops_from(k)"); }
                                if !beyond { bad.push("ops_from(len+1) is Some"); }
                                if m.bytecode() != bytes { bad.push("bytecode()"); }
                                // byte offsets of ops, relative to what the parser made of the string (whether the
                                // parser itself is right is C13's question)
                                use essential_vm::asm::ToBytes;
                                let mut off = vec![];
                                let mut i = 0;
                                for op in &ops { off.push(i); i += op.to_bytes().into_iter().count(); }
                                if m.op_indices() != off || *bidx != off { bad.push("op_indices()"); }
                                let ser: Vec<u8> = asm::to_bytes(ops.iter().copied()).collect();
                                let from_iter: BytecodeMapped = ops.iter().copied().collect();
                                if from_iter.bytecode() != ser || (ser == bytes && from_iter != *m) { bad.push("FromIterator"); }
                                if !bad.is_empty() {
                                    rep.violation("C14", "mapping-content", format!("mapped form disagrees with the parsed list in: {}", bad.join(", ")), case());
                                }
                            }
                        }
                    }
                }
            }
        }
        // --- effects
        if props.contains(&"C15") && err.is_none() {
            let mut present = 0u8;
            for op in &ops {
                present |= match op_path(op).as_str() {
                    "StateRead(KeyRange)" => effects::Effects::KeyRange.bits(),
                    "StateRead(KeyRangeExtern)" => effects::Effects::KeyRangeExtern.bits(),
                    "StateRead(PostKeyRange)" => effects::Effects::PostKeyRange.bits(),
                    "StateRead(PostKeyRangeExtern)" => effects::Effects::PostKeyRangeExtern.bits(),
                    "Access(ThisAddress)" => effects::Effects::ThisAddress.bits(),
                    "Access(ThisContractAddress)" => effects::Effects::ThisContractAddress.bits(),
                    _ => 0,
                };
            }
            if present != 0 {
                rep.count("effects.programs_with_effects");
            }
            rep.set("effects.sets_seen", format!("{present:06b}"));
            let r = catch(|| {
                let a = effects::analyze(&ops).bits();
                let q: Vec<bool> = (0u8..64).map(|e| effects::bytes_contains_any(bytes, effects::Effects::from_bits_truncate(e))).collect();
                (a, q)
            });
            match r {
                Err(p) => rep.violation("C15", "panic", format!("effect analysis panicked: {p}"), case()),
                Ok((a, q)) => {
                    if a != present {
                        rep.violation("C15", "analyze", format!("analyze -> {a:06b}, effects present -> {present:06b}"), case());
                    }
                    for e in 0u8..64 {
                        if q[e as usize] != (present & e != 0) {
                            rep.violation("C15", "bytes-contains-any", format!("bytes_contains_any(.., {e:06b}) -> {}, effects present -> {present:06b}", q[e as usize]), case());
                            break;
                        }
                    }
                    rep.add("effects.subset_queries", 64);
                }
            }
        }
    }
}

fn walk_patterns() -> Vec<i64> {
    let mut v = vec![0, -1, i64::MIN, i64::MAX, 1, 0x0102030405060708, 0x8000000000000001u64 as i64];
    for i in 0..64 {
        v.push(1i64 << i);
        v.push(!(1i64 << i));
    }
    v
}

pub fn run(args: &Args, rep: &mut Report) {
    crate::vmcase::install_panic_hook();
    let thorough = args.tier == "thorough";
    let props: Vec<&str> = match args.prop.as_str() {
        "C13" => vec!["C13"],
        "C14" => vec!["C14"],
        "C15" => vec!["C15"],
        _ => vec!["C13", "C14", "C15"],
    };
    // --- three sources
    let spec = match read_spec(essential_asm_spec::ASM_YAML) {
        Ok(s) => s,
        Err(e) => {
            rep.inconclusive.push(format!("own asm.yml reader failed: {e}"));
            return;
        }
    };
    let pinned_path = args.extra.iter().position(|a| a == "--pinned").and_then(|i| args.extra.get(i + 1)).cloned().unwrap_or("/verif/pinned/opcodes.tsv".into());
    let pinned = std::fs::read_to_string(&pinned_path).map(|t| parse_tsv(&t)).unwrap_or_default();
    if pinned.is_empty() {
        rep.inconclusive.push(format!("pinned table {pinned_path} missing"));
        return;
    }
    let table: BTreeMap<u8, SpecOp> = spec.iter().map(|o| (o.byte, o.clone())).collect();
    let codec = Codec { table };
    let nosample = json!({"engine": "codec", "static": true});
    if args.shard == 0 && props.contains(&"C13") {
        // spec vs pinned
        if spec != pinned {
            let diff: Vec<String> = spec.iter().filter(|o| !pinned.contains(o)).map(|o| format!("{o:?}")).chain(pinned.iter().filter(|o| !spec.contains(o)).map(|o| format!("pinned {o:?}"))).take(6).collect();
            rep.violation("C13", "spec-vs-pinned", format!("asm.yml differs from the pinned opcode table: {}", diff.join("; ")), nosample.clone());
        }
        if spec.len() != spec.iter().map(|o| o.byte).collect::<std::collections::BTreeSet<_>>().len() {
            rep.violation("C13", "duplicate-opcode", "asm.yml declares an opcode twice".into(), nosample.clone());
        }
        // generated code vs pinned, all 256 bytes
        let pinned_map: BTreeMap<u8, &SpecOp> = pinned.iter().map(|o| (o.byte, o)).collect();
        for b in 0u8..=255 {
            rep.evaluations += 1;
            let oc = Opcode::try_from(b);
            match (oc, pinned_map.get(&b)) {
                (Ok(oc), Some(p)) => {
                    if format!("{oc:?}") != p.path || u8::from(oc) != b {
                        rep.violation("C13", "opcode-meaning", format!("byte {b:#04x} is {oc:?}, pinned table says {}", p.path), json!({"engine": "codec", "bytes": hex::encode([b])}));
                    }
                    // immediates: too few -> NotEnoughBytes, exact -> Ok
                    for k in 0..=p.arg_bytes {
                        let mut bytes = vec![b];
                        bytes.extend((0..k).map(|i| 0xA0 + i as u8));
                        codec.check_bytes(&bytes, rep, &props);
                    }
                }
                (Err(asm::InvalidOpcodeError(x)), None) => {
                    if x != b {
                        rep.violation("C13", "error-kind", format!("byte {b:#04x} rejected as {x:#04x}"), json!({"engine": "codec", "bytes": hex::encode([b])}));
                    }
                    codec.check_bytes(&[b], rep, &props);
                }
                (Ok(oc), None) => rep.violation("C13", "undeclared-opcode", format!("byte {b:#04x} is accepted as {oc:?} but not declared"), json!({"engine": "codec", "bytes": hex::encode([b])})),
                (Err(_), Some(p)) => rep.violation("C13", "missing-opcode", format!("byte {b:#04x} ({}) is declared but rejected", p.path), json!({"engine": "codec", "bytes": hex::encode([b])})),
            }
        }
        rep.set("exhaustive_subspaces", "all 256 opcode bytes with every immediate length 0..=declared");
        // short names
        let shorts = short_table();
        if shorts.len() != spec.len() {
            rep.violation("C13", "short-names", format!("{} short constants known to the harness, {} ops in asm.yml", shorts.len(), spec.len()), nosample.clone());
        }
        for o in &spec {
            match shorts.iter().find(|(n, _)| *n == o.short) {
                Some((_, op)) => {
                    if op_path(op) != o.path {
                        rep.violation("C13", "short-names", format!("short::{} is {op:?}, asm.yml says {}", o.short, o.path), nosample.clone());
                    }
                }
                None => rep.violation("C13", "short-names", format!("asm.yml declares short name {} for {} which the harness does not know", o.short, o.path), nosample.clone()),
            }
            rep.count("short_names_checked");
        }
    }
    let valid: Vec<u8> = spec.iter().map(|o| o.byte).collect();
    let enc = |b: u8, imm: i64| -> Vec<u8> {
        let mut v = vec![b];
        if codec.table[&b].arg_bytes == 8 {
            v.extend(imm.to_be_bytes());
        }
        v
    };
    // all opcode pairs (exhaustive), sharded
    let mut n = 0u64;
    for &a in &valid {
        for &b in &valid {
            n += 1;
            if n % args.nshards as u64 != args.shard as u64 {
                continue;
            }
            let mut bytes = enc(a, 0x1122334455667788);
            bytes.extend(enc(b, -2));
            codec.check_bytes(&bytes, rep, &props);
        }
    }
    rep.set("exhaustive_subspaces", format!("all {} x {} opcode pairs", valid.len(), valid.len()));
    // Push immediates: bit-walking patterns, and every opcode byte at every immediate position
    if args.shard == 0 {
        for w in walk_patterns() {
            codec.check_bytes(&enc(1, w), rep, &props);
            let mut b = enc(1, w);
            b.extend(enc(1, !w));
            b.push(valid[(w as u64 % valid.len() as u64) as usize]);
            codec.check_bytes(&b, rep, &props);
        }
        // (the interpreter is ~10^4 times slower: first and last immediate position, every eighth opcode)
        let miri = args.regime == "miri";
        for pos in (0..8).filter(|p| !miri || *p == 0 || *p == 7) {
            for &v in valid.iter().step_by(if miri { 8 } else { 1 }) {
                let mut imm = [0x11u8; 8];
                imm[pos] = v;
                let mut bytes = vec![1];
                bytes.extend(imm);
                codec.check_bytes(&bytes, rep, &props);
                // followed directly by an effect op / another op
                for &next in &[0x80u8, 0x81, 0x82, 0x83, 0x30, 0x31, 0x02] {
                    let mut b2 = bytes.clone();
                    b2.push(next);
                    codec.check_bytes(&b2, rep, &props);
                }
            }
        }
        rep.set("exhaustive_subspaces", "Push immediates: walking ones/zeros; every opcode byte at every immediate position");
        codec.check_bytes(&[], rep, &props);
    }
    // alignment sweep (exhaustive, sharded): a Push-bearing probe behind every filler length 0..=8300, so that the
    // Push opcode / its immediate / the op after it sit at every offset relative to any block or window boundary a
    // chunked parser, mapper or scanner may use (the filler holds no effect opcode and no Push)
    if args.regime != "miri" {
        let filler_op = 0x02u8; // Pop
        let probes: Vec<Vec<u8>> = vec![
            [&[1u8][..], &[0x82; 8][..]].concat(),
            [&[1u8][..], &[0x01; 8][..], &[0x82][..]].concat(),
            [&[1u8][..], &[0x01; 8][..], &[0x80][..]].concat(),
            [&[1u8][..], &[0x80, 0x81, 0x82, 0x83, 0x30, 0x31, 0x01, 0x02][..], &[0x83][..]].concat(),
            [&[1u8][..], &[0, 0, 0, 0, 0, 0, 0, 1][..], &[0x30][..], &[1u8][..], &[0xff; 8][..]].concat(),
            vec![0x81],
        ];
        let max = if thorough { 9900 } else { 8300 };
        let step = if args.regime == "dev" { 7 } else { 1 };
        let mut n = 0u64;
        for fill in (0..=max).step_by(step) {
            for (pi, probe) in probes.iter().enumerate() {
                n += 1;
                if n % args.nshards as u64 != args.shard as u64 {
                    continue;
                }
                // thin out the bulk, keep every offset near the power-of-two boundaries
                let near = [1024usize, 2048, 3072, 4096, 8192].iter().any(|b| (fill + 16) % b < 40);
                if !near && (fill + pi) % 5 != 0 {
                    continue;
                }
                let mut bytes = vec![filler_op; fill];
                bytes.extend(probe);
                if pi % 2 == 0 {
                    bytes.extend(vec![filler_op; 1030]);
                }
                codec.check_bytes(&bytes, rep, &props);
                rep.count("alignment_sweep");
            }
        }
        rep.set("exhaustive_subspaces", format!("alignment sweep: 6 Push-bearing probes behind fillers of 0..={max} one-byte ops (every offset near 1024/2048/3072/4096/8192, every fifth elsewhere)"));
    }
    // random programs, their truncations and mutations, random byte strings
    let mut r = Rng::new(crate::rng::mix(args.seed.wrapping_mul(1_000_003) + args.shard as u64, 0xc0dec));
    let budget = ((if thorough { 40_000_000.0 } else { 800_000.0 }) * args.scale) as u64 / args.nshards as u64;
    let effect_bytes = [0x80u8, 0x81, 0x82, 0x83, 0x30, 0x31];
    let mut i = 0;
    let miri = args.regime == "miri";
    while i < budget {
        // mostly short programs; now and then thousands of ops (chunked parsers / index tables switch there)
        let len = if !miri && r.chance(0.002) { 1000 + r.below(9000) } else { r.below(24) };
        let mut bytes = vec![];
        for _ in 0..len {
            let b = match r.below(10) {
                0..=2 => 1u8,
                3 => *r.pick(&effect_bytes),
                _ => *r.pick(&valid),
            };
            let imm = match r.below(4) {
                0 => i64::from_be_bytes(std::array::from_fn(|_| *r.pick(&effect_bytes))),
                1 => i64::from_be_bytes(std::array::from_fn(|_| *r.pick(&valid))),
                2 => *r.pick(crate::vmgen::ALPHA),
                _ => r.word(),
            };
            bytes.extend(enc(b, imm));
        }
        codec.check_bytes(&bytes, rep, &props);
        i += 1;
        match r.below(4) {
            0 => {
                // every truncation
                if bytes.len() <= 40 {
                    for k in 0..bytes.len() {
                        codec.check_bytes(&bytes[..k], rep, &props);
                        i += 1;
                    }
                }
            }
            1 => {
                if !bytes.is_empty() {
                    let mut m = bytes.clone();
                    let k = r.below(m.len());
                    m[k] ^= 1 << r.below(8);
                    codec.check_bytes(&m, rep, &props);
                    i += 1;
                }
            }
            2 => {
                let n = r.below(30);
                let raw = r.bytes(n);
                codec.check_bytes(&raw, rep, &props);
                i += 1;
            }
            _ => {}
        }
    }
    rep.sample(3, || json!({"bytes": "01000000000000000580", "meaning": "PUSH 5; KRNG (random programs over all ops, truncations, bit flips, raw bytes)"}));
}

pub fn replay(bytes_hex: &str, rep: &mut Report) {
    crate::vmcase::install_panic_hook();
    let spec = read_spec(essential_asm_spec::ASM_YAML).unwrap_or_default();
    let codec = Codec { table: spec.iter().map(|o| (o.byte, o.clone())).collect() };
    codec.check_bytes(&hex::decode(bytes_hex).unwrap_or_default(), rep, &["C13", "C14", "C15"]);
}
