//! Signature engine (C19): contract signatures bind the signer to the content; word encodings
//! are injective and are the ones the VM's secp256k1 recovery op consumes and produces.

use crate::{model, report::Report, rng::Rng, vmcase::catch, Args};
use essential_sign::{contract as sc, encode};
use essential_types::{
    contract::{Contract, SignedContract},
    Signature, Word,
};
use essential_vm::{asm::short::*, Access, GasLimit, Op, Vm};
use secp256k1::{ecdsa::RecoverableSignature, ecdsa::RecoveryId, Message, PublicKey, Secp256k1, SecretKey};
use serde_json::json;
use std::{collections::HashMap, sync::Arc};

fn gen_sk(r: &mut Rng) -> SecretKey {
    loop {
        let mut b = r.bytes32();
        match r.below(20) {
            0 => {
                b = [0; 32];
                b[31] = 1 + r.below(5) as u8;
            }
            1 => {
                // just below the group order
                b = hex::decode("FFFFFFFFFFFFFFFFFFFFFFFFFFFFFFFEBAAEDCE6AF48A03BBFD25E8CD0364140").unwrap().try_into().unwrap();
                b[31] = b[31].wrapping_sub(r.below(4) as u8);
            }
            _ => {}
        }
        if let Ok(sk) = SecretKey::from_slice(&b) {
            return sk;
        }
    }
}

fn vm_recover(hash: [u8; 32], sig_words: [Word; 9]) -> Result<Vec<Word>, String> {
    let mut ops: Vec<Op> = model::word_4_from_u8_32(hash).map(PUSH).to_vec();
    ops.extend(sig_words.map(PUSH));
    ops.push(RSECP);
    let mut r = Rng::new(1);
    let case = crate::vmgen::base_case(&mut r);
    let (views, _) = crate::state::Views::new(&case.pre, &case.post);
    let mut vm = Vm::default();
    vm.exec_ops(&ops, Access::new(Arc::new(case.solutions), 0), &views, &|_: &Op| 1, GasLimit::UNLIMITED)
        .map_err(|e| format!("{e}"))?;
    Ok(vm.stack.to_vec())
}

pub fn run(args: &Args, rep: &mut Report) {
    crate::vmcase::install_panic_hook();
    let thorough = args.tier == "thorough";
    let mut r = Rng::new(crate::rng::mix(args.seed.wrapping_mul(1_000_003) + args.shard as u64, 0x5161));
    let budget = ((if thorough { 600_000.0 } else { 30_000.0 }) * args.scale) as u64 / args.nshards as u64;
    let mut st = State { secp: Secp256k1::new(), key_words: HashMap::new(), sig_words: HashMap::new() };
    for _ in 0..budget.max(1) {
        let sk = gen_sk(&mut r);
        // mostly a handful of predicates; now and then as many as a contract may hold
        // (signing is defined for any number of predicates; 100 is what the validator accepts)
        let np = if r.chance(0.006) { *r.pick(&[16usize, 17, 33, 64, 65, 99, 100, 101, 130]) } else { r.below(5) };
        let mut contract = Contract { predicates: (0..np).map(|_| crate::formats::gen_predicate(&mut r, false)).collect(), salt: if r.chance(0.2) { [0; 32] } else { r.bytes32() } };
        if np >= 1 && r.chance(0.25) {
            // a contract is a multiset of predicates: repeat one
            let d = contract.predicates[r.below(np)].clone();
            contract.predicates.push(d);
        }
        if r.chance(0.03) {
            // a predicate at the validator's limits (0 / 1 / 999 / 1000 nodes and edges), anywhere in the contract
            let at = r.below(contract.predicates.len() + 1);
            contract.predicates.insert(at, crate::formats::gen_predicate(&mut r, true));
            rep.count("contracts_with_limit_size_predicate");
        }
        one_case(&mut r, rep, &mut st, &sk, &contract);
    }
    let (key_words, mut r) = (st.key_words, r);
    raw_signatures(&mut r, rep, budget);
    rep.add("distinct_keys_bucketed", key_words.len() as u64);
    rep.sample(2, || json!({"what": "key + contract", "note": "sign -> recover -> verify, predicate permutation, two content tamperings, three malformed signatures, word encodings, VM RecoverSecp256k1 on the encoded words; plus raw 65-byte signatures"}));
}

struct State {
    secp: Secp256k1<secp256k1::All>,
    key_words: HashMap<[Word; 5], [u8; 33]>,
    sig_words: HashMap<[Word; 9], ([u8; 64], i32)>,
}

/// Everything that is checked for one (secret key, contract) pair; the random choices (permutation, which field
/// is tampered with, which malformed signature) come from `r`.
fn one_case(r: &mut Rng, rep: &mut Report, st: &mut State, sk: &SecretKey, contract: &Contract) {
    let State { secp, key_words, sig_words } = st;
    let sk = *sk;
    let contract = contract.clone();
    let pk = PublicKey::from_secret_key(secp, &sk);
    {
        let np = contract.predicates.len();
        let case = |what: &str| json!({"engine": "sign", "what": what, "secret_key": hex::encode(sk.secret_bytes()), "contract": contract});
        crate::wal(&|| case("sign"));
        rep.evaluations += 1;
        let signed = match catch(|| sc::sign(contract.clone(), &sk)) {
            Ok(s) => s,
            Err(p) => {
                rep.violation("C19", "panic", format!("sign panicked: {p}"), case("sign"));
                return;
            }
        };
        // sign -> recover -> verify
        match catch(|| (sc::recover(&signed), sc::verify(&signed))) {
            Err(p) => rep.violation("C19", "panic", format!("recover/verify panicked: {p}"), case("recover")),
            Ok((rec, ver)) => {
                if rec.as_ref().ok() != Some(&pk) || ver.is_err() {
                    rep.violation("C19", "roundtrip", format!("recover(sign(c, sk)) = {rec:?}, verify = {ver:?}; signer is {pk}"), case("roundtrip"));
                }
            }
        }
        // the signed message is the content address computed independently
        let addr = crate::formats::own_contract_addr(&contract);
        if essential_sign::recover_hash(addr, &signed.signature).ok() != Some(pk) {
            rep.violation("C19", "signed-message", "the signature does not recover the signer over SHA-256(sorted predicate addresses || salt)".into(), case("signed-message"));
        }
        // predicate order does not matter
        if np >= 2 {
            let mut perm = signed.clone();
            r.shuffle(&mut perm.contract.predicates);
            rep.count("permutations");
            if sc::recover(&perm).ok() != Some(pk) || sc::verify(&perm).is_err() {
                rep.violation("C19", "order-dependent", "recovery fails after permuting the predicates".into(), case("permute"));
            }
        }
        // any change to content unbinds the signer
        for _ in 0..2 {
            let mut t = signed.clone();
            match r.below(6) {
                4 if !t.contract.predicates.is_empty() => {
                    // one more copy of a predicate that is already there
                    let d = t.contract.predicates[r.below(t.contract.predicates.len())].clone();
                    t.contract.predicates.push(d);
                }
                5 if t.contract.predicates.len() >= 2 => {
                    // turn one predicate into a copy of another
                    let d = t.contract.predicates[0].clone();
                    let i = 1 + r.below(t.contract.predicates.len() - 1);
                    if t.contract.predicates[i] == d {
                        t.contract.salt[0] ^= 1;
                    } else {
                        t.contract.predicates[i] = d;
                    }
                }
                0 => t.contract.salt[r.below(32)] ^= 1 << r.below(8),
                1 if !t.contract.predicates.is_empty() => {
                    let i = r.below(t.contract.predicates.len());
                    t.contract.predicates[i] = crate::formats::perturb_predicate(r, &t.contract.predicates[i]);
                }
                2 => t.contract.predicates.push(crate::formats::gen_predicate(r, false)),
                _ => {
                    if t.contract.predicates.pop().is_none() {
                        t.contract.salt[0] ^= 0x80;
                    }
                }
            }
            rep.count("tamperings");
            match catch(|| sc::recover(&t)) {
                Err(p) => rep.violation("C19", "panic", format!("recover panicked: {p}"), case("tamper")),
                Ok(rec) => {
                    if rec.ok() == Some(pk) {
                        rep.violation("C19", "tamper-undetected", format!("after changing the contract the signature still recovers the signer: {:?}", t.contract), case("tamper"));
                    }
                }
            }
        }
        // malformed signatures / recovery ids: error, never a panic; consistent with check_signed_contract
        for _ in 0..3 {
            let mut t = signed.clone();
            match r.below(5) {
                0 => t.signature.1 = r.below(256) as u8,
                1 => t.signature.0[r.below(64)] ^= 1 << r.below(8),
                2 => {
                    let mut s = [0u8; 64];
                    s.copy_from_slice(&r.bytes(64));
                    t.signature = Signature(s, r.below(5) as u8);
                }
                3 => t.signature = Signature([0xff; 64], r.below(4) as u8),
                _ => t.signature = Signature([0; 64], r.below(4) as u8),
            }
            rep.count("malformed_signatures");
            match catch(|| (sc::recover(&t), sc::verify(&t), essential_check::predicate::check_signed_contract(&t))) {
                Err(p) => rep.violation("C19", "panic", format!("malformed signature {} caused a panic: {p}", t.signature), case("malformed")),
                Ok((rec, ver, chk)) => {
                    // check_signed_contract additionally validates the contract's size limits
                    let within_limits = t.contract.predicates.len() <= 100 && t.contract.predicates.iter().all(|p| p.nodes.len() <= 1000 && p.edges.len() <= 1000);
                    if rec.is_ok() != ver.is_ok() || (chk.is_ok() != (rec.is_ok() && within_limits)) {
                        rep.violation("C19", "inconsistent", format!("recover ok={}, verify ok={}, check_signed_contract ok={} for signature {}", rec.is_ok(), ver.is_ok(), chk.is_ok(), t.signature), case("malformed"));
                    }
                    if t.signature.1 > 3 && rec.is_ok() {
                        rep.violation("C19", "bad-recovery-id", format!("recovery id {} accepted", t.signature.1), case("malformed"));
                    }
                    if t.signature != signed.signature && rec.ok() == Some(pk) {
                        rep.violation("C19", "tamper-undetected", format!("a different signature {} still recovers the signer", t.signature), case("malformed"));
                    }
                }
            }
        }
        // word encodings: documented layout, injective, and what the VM op consumes / produces
        let ser = pk.serialize();
        let kw = encode::public_key(&pk);
        let mut first = [0u8; 32];
        first.copy_from_slice(&ser[..32]);
        let doc_kw: [Word; 5] = {
            let w = model::word_4_from_u8_32(first);
            [w[0], w[1], w[2], w[3], ser[32] as Word]
        };
        if kw != doc_kw || encode::public_key_as_bytes(&pk)[..] != model::words_to_bytes(&kw)[..] {
            rep.violation("C19", "key-encoding", "public key words are not 4 big-endian words + last byte in the low byte of word 5".into(), case("key-encoding"));
        }
        if let Some(other) = key_words.insert(kw, ser) {
            if other != ser {
                rep.violation("C19", "not-injective", "two public keys share a word encoding".into(), case("key-encoding"));
            }
        }
        let rid = RecoveryId::try_from(signed.signature.1 as i32).expect("genuine recovery id");
        let rsig = RecoverableSignature::from_compact(&signed.signature.0, rid).expect("genuine signature");
        let sw = encode::signature(&rsig);
        let doc_sw: [Word; 9] = {
            let w = model::word_8_from_u8_64(signed.signature.0);
            [w[0], w[1], w[2], w[3], w[4], w[5], w[6], w[7], signed.signature.1 as Word]
        };
        if sw != doc_sw || encode::signature_as_bytes(&rsig)[..] != model::words_to_bytes(&sw)[..] {
            rep.violation("C19", "signature-encoding", "signature words are not 8 big-endian words + recovery id".into(), case("signature-encoding"));
        }
        if let Some(other) = sig_words.insert(sw, (signed.signature.0, signed.signature.1 as i32)) {
            if other != (signed.signature.0, signed.signature.1 as i32) {
                rep.violation("C19", "not-injective", "two signatures share a word encoding".into(), case("signature-encoding"));
            }
        }
        rep.count("vm_recoveries");
        match catch(|| vm_recover(addr, sw)) {
            Err(p) => rep.violation("C19", "panic", format!("RecoverSecp256k1 panicked: {p}"), case("vm")),
            Ok(Ok(stack)) => {
                if stack != kw {
                    rep.violation("C19", "vm-disagrees", format!("RecoverSecp256k1 on encode::signature words yields {stack:?}, encode::public_key(recover) = {kw:?}"), case("vm"));
                }
            }
            Ok(Err(e)) => rep.violation("C19", "vm-disagrees", format!("RecoverSecp256k1 failed on a genuine signature: {e}"), case("vm")),
        }
        // direct message API agrees
        let msg = Message::from_digest(addr);
        if essential_sign::verify_message(&msg, &signed.signature.0, &pk).is_err() || essential_sign::sign_message(&msg, &sk) != signed.signature || essential_sign::sign_hash(addr, &sk) != signed.signature {
            rep.violation("C19", "helpers-disagree", "sign_hash / sign_message / verify_message disagree with contract::sign".into(), case("helpers"));
        }
        rep.nontrivial(crate::rng::fnv(&ser));
        let _: &SignedContract = &signed;
    }
}

/// Raw 65-byte strings as signatures: an error, never a panic.
fn raw_signatures(r: &mut Rng, rep: &mut Report, budget: u64) {
    for _ in 0..(budget * 4).max(1) {
        let mut s = [0u8; 64];
        s.copy_from_slice(&r.bytes(64));
        let sig = Signature(s, if r.chance(0.7) { r.below(4) as u8 } else { r.below(256) as u8 });
        let signed = SignedContract { contract: Contract::default(), signature: sig.clone() };
        rep.evaluations += 1;
        rep.count("raw_signatures");
        if let Err(p) = catch(|| (sc::recover(&signed).is_ok(), sc::verify(&signed).is_ok())) {
            rep.violation("C19", "panic", format!("raw signature {sig} caused a panic: {p}"), json!({"engine": "sign", "what": "raw", "signature": sig.to_string()}));
        }
    }
}

/// Replay a recorded case: the same key and contract through every check again, with up to 4000 different streams of the
/// random choices (which field is tampered with, which malformed signature) so that the recorded one is hit again.
pub fn replay(case: &serde_json::Value, rep: &mut Report) {
    crate::vmcase::install_panic_hook();
    if case.get("what").and_then(|w| w.as_str()) == Some("raw") {
        let text = case.get("signature").and_then(|s| s.as_str()).unwrap_or("");
        match text.parse::<Signature>() {
            Ok(sig) => {
                let signed = SignedContract { contract: Contract::default(), signature: sig.clone() };
                if let Err(p) = catch(|| (sc::recover(&signed).is_ok(), sc::verify(&signed).is_ok())) {
                    rep.violation("C19", "panic", format!("raw signature {sig} caused a panic: {p}"), case.clone());
                }
            }
            Err(_) => rep.inconclusive.push("cannot read the recorded signature".into()),
        }
        return;
    }
    let sk = case.get("secret_key").and_then(|s| s.as_str()).and_then(|s| hex::decode(s).ok()).and_then(|b| SecretKey::from_slice(&b).ok());
    let contract: Option<Contract> = case.get("contract").cloned().and_then(|c| serde_json::from_value(c).ok());
    let (Some(sk), Some(contract)) = (sk, contract) else {
        rep.inconclusive.push("cannot read secret key / contract of the recorded case".into());
        return;
    };
    let mut st = State { secp: Secp256k1::new(), key_words: HashMap::new(), sig_words: HashMap::new() };
    for i in 0..4000 {
        let mut r = Rng::new(0x5161 + i);
        one_case(&mut r, rep, &mut st, &sk, &contract);
        if !rep.violations.is_empty() {
            break;
        }
    }
}
