//! Small deterministic PRNG (xoshiro256** seeded by splitmix64). No external crates so
//! that the stream is stable whatever is in the cargo cache.

#[derive(Clone, Debug)]
pub struct Rng {
    s: [u64; 4],
}

fn splitmix(x: &mut u64) -> u64 {
    *x = x.wrapping_add(0x9E37_79B9_7F4A_7C15);
    let mut z = *x;
    z = (z ^ (z >> 30)).wrapping_mul(0xBF58_476D_1CE4_E5B9);
    z = (z ^ (z >> 27)).wrapping_mul(0x94D0_49BB_1331_11EB);
    z ^ (z >> 31)
}

impl Rng {
    pub fn new(seed: u64) -> Self {
        let mut x = seed ^ 0xA076_1D64_78BD_642F;
        let s = [
            splitmix(&mut x),
            splitmix(&mut x),
            splitmix(&mut x),
            splitmix(&mut x),
        ];
        Rng { s }
    }

    /// Derive an independent stream.
    pub fn fork(&mut self) -> Rng {
        Rng::new(self.next_u64())
    }

    pub fn next_u64(&mut self) -> u64 {
        let r = self.s[1].wrapping_mul(5).rotate_left(7).wrapping_mul(9);
        let t = self.s[1] << 17;
        self.s[2] ^= self.s[0];
        self.s[3] ^= self.s[1];
        self.s[1] ^= self.s[2];
        self.s[0] ^= self.s[3];
        self.s[2] ^= t;
        self.s[3] = self.s[3].rotate_left(45);
        r
    }

    /// Uniform in `0..n` (n > 0).
    pub fn below(&mut self, n: usize) -> usize {
        debug_assert!(n > 0);
        (self.next_u64() % n as u64) as usize
    }

    /// Uniform in `lo..hi` (hi > lo).
    pub fn range(&mut self, lo: i64, hi: i64) -> i64 {
        let span = (hi as i128 - lo as i128) as u128;
        (lo as i128 + (self.next_u64() as u128 % span) as i128) as i64
    }

    pub fn chance(&mut self, p: f64) -> bool {
        (self.next_u64() >> 11) as f64 / ((1u64 << 53) as f64) < p
    }

    pub fn pick<'a, T>(&mut self, xs: &'a [T]) -> &'a T {
        &xs[self.below(xs.len())]
    }

    pub fn shuffle<T>(&mut self, xs: &mut [T]) {
        for i in (1..xs.len()).rev() {
            let j = self.below(i + 1);
            xs.swap(i, j);
        }
    }

    pub fn word(&mut self) -> i64 {
        self.next_u64() as i64
    }

    pub fn bytes(&mut self, n: usize) -> Vec<u8> {
        let mut v = Vec::with_capacity(n);
        while v.len() < n {
            let w = self.next_u64().to_le_bytes();
            let k = (n - v.len()).min(8);
            v.extend_from_slice(&w[..k]);
        }
        v
    }

    pub fn bytes32(&mut self) -> [u8; 32] {
        let mut a = [0u8; 32];
        a.copy_from_slice(&self.bytes(32));
        a
    }
}

/// FNV-1a over bytes; used for case hashes (distinct counting).
pub fn fnv(bytes: &[u8]) -> u64 {
    let mut h: u64 = 0xcbf2_9ce4_8422_2325;
    for b in bytes {
        h ^= *b as u64;
        h = h.wrapping_mul(0x1000_0000_01b3);
    }
    h
}

pub fn fnv_words(words: &[i64]) -> u64 {
    let mut h: u64 = 0xcbf2_9ce4_8422_2325;
    for w in words {
        for b in w.to_le_bytes() {
            h ^= b as u64;
            h = h.wrapping_mul(0x1000_0000_01b3);
        }
    }
    h
}

pub fn mix(a: u64, b: u64) -> u64 {
    let mut x = a ^ b.rotate_left(32) ^ 0x9E37_79B9_7F4A_7C15;
    splitmix(&mut x)
}
