//! Scenario generator: predicate graphs in arbitrary numberings, node programs built from
//! templates that work on any input, solution sets with declared and computed mutations.

use crate::{
    rng::Rng,
    scen::{Scenario, B_DIGEST, B_END, B_OBS, B_START, MAGIC, MAGIC_IN, MAGIC_OUT, MAGIC_OUT2},
    state::{Script, ViewSpec},
};
use essential_hash::content_addr;
use essential_types::{
    predicate::{Edge, Node, Predicate, Program},
    solution::{Mutation, Solution},
    ContentAddress, PredicateAddress, Word,
};
use essential_vm::asm::{self, short::*, Op};

/// Set under Miri / TSan: no wide forks, no long ranges (the interpreter is ~10^4 times slower).
pub static TINY: std::sync::atomic::AtomicBool = std::sync::atomic::AtomicBool::new(false);

fn tiny() -> bool {
    TINY.load(std::sync::atomic::Ordering::Relaxed)
}

#[derive(Clone, Debug)]
pub struct GenOpts {
    pub max_nodes: usize,
    pub max_solutions: usize,
    /// Probability that a non-leaf node reads post-state.
    pub p_post: f64,
    /// Probability that a leaf is a data-output leaf.
    pub p_data_leaf: f64,
    /// Probability of a node that may fail / an unsatisfied leaf.
    pub p_fail: f64,
    /// Probability that the graph encoding is raw (possibly malformed / cyclic).
    pub p_raw_graph: f64,
    /// Allow different solutions to give the same contract+key different values (D2 class).
    pub allow_conflicts: bool,
    /// Probability that computed mutation keys collide with declared ones (D3 class).
    pub p_overlap: f64,
    pub hostile_outputs: f64,
    /// Probability that a reader asks for a hostile number of keys (-1 .. i64::MAX).
    pub hostile_reads: f64,
    /// Probability of a graph at the validator's limits (200 / 999 / 1000 nodes; chains and fans).
    pub big_graphs: f64,
    /// Probability that the set lists one solution twice (a set is validated as a list: duplicates are accepted).
    pub p_dup_solution: f64,
    /// Probability of a set with 17..=40 solutions.
    pub p_mid_sets: f64,
    /// Probability of a mid-size graph (13..160 nodes).
    pub p_mid_graphs: f64,
    /// Probability that the pre-state fails reads of one or two particular keys (state errors inside node programs).
    pub p_poison: f64,
}

impl Default for GenOpts {
    fn default() -> Self {
        GenOpts {
            max_nodes: 9,
            max_solutions: 5,
            p_post: 0.25,
            p_data_leaf: 0.25,
            p_fail: 0.04,
            p_raw_graph: 0.05,
            allow_conflicts: false,
            p_overlap: 0.03,
            hostile_outputs: 0.02,
            hostile_reads: 0.0,
            big_graphs: 0.0,
            p_dup_solution: 0.0,
            p_mid_sets: 0.004,
            p_mid_graphs: 0.004,
            p_poison: 0.04,
        }
    }
}

pub fn prog(ops: &[Op]) -> Program {
    Program(asm::to_bytes(ops.iter().copied()).collect())
}

/// Pushes the solution's tag (word 0 of predicate-data slot 0).
fn push_tag(o: &mut Vec<Op>) {
    o.extend([PUSH(0), PUSH(0), PUSH(1), DATA]);
}

fn beacon(o: &mut Vec<Op>, kind: Word, abs: Word) {
    o.extend([PUSH(MAGIC), PUSH(kind)]);
    push_tag(o);
    o.extend([PUSH(abs), PUSH(4), PUSH(0), PUSH(0), KRNG]);
}

/// Prelude: input marker for the node spy (must be the first six ops), then the start beacon.
pub fn prelude(o: &mut Vec<Op>, abs: Word) {
    o.push(PUSH(MAGIC_IN));
    push_tag(o);
    o.extend([PUSH(abs), POP, POP, POP]);
    beacon(o, B_START, abs);
}

fn epilogue(o: &mut Vec<Op>, abs: Word) {
    beacon(o, B_END, abs);
    o.push(PUSH(MAGIC_OUT));
    push_tag(o);
    o.extend([PUSH(abs), PUSH(MAGIC_OUT2), POP, POP, POP, POP]);
}

pub const KEYSPACE: Word = 8;

/// Keys of declared mutations and of reads. Computed mutations use `[5..8)` and `[3, x]`.
fn gen_key(r: &mut Rng) -> Vec<Word> {
    match r.below(14) {
        0 => vec![i64::MAX],
        1 => vec![0, i64::MAX],
        2 => vec![1, i64::MIN],
        3 => vec![r.range(0, 3), r.range(0, 3)],
        4 => vec![],
        5 => vec![3, r.range(0, 30)],
        6 => vec![-1],
        7 => vec![2, -1],
        _ => vec![r.range(0, 5)],
    }
}

fn gen_read_key(r: &mut Rng) -> Vec<Word> {
    if r.chance(0.5) {
        vec![r.range(0, KEYSPACE)]
    } else {
        gen_key(r)
    }
}

fn gen_value(r: &mut Rng) -> Vec<Word> {
    match r.below(8) {
        0 => vec![], // deletion
        1 => vec![r.range(0, 100), r.range(0, 100), r.range(0, 100)],
        _ => vec![r.range(1, 1000)],
    }
}

/// A state read of `n` keys from `key` into fresh memory, followed by an "observed" beacon
/// carrying the words that were read. Works on any input.
fn reader(o: &mut Vec<Op>, r: &mut Rng, abs: Word, post: bool, contracts: &[ContentAddress], hostile: f64) {
    let key = gen_read_key(r);
    let (n, room) = if r.chance(hostile) {
        (*r.pick(&[-1i64, 5120, 5121, 6000, 1 << 20, 1 << 40, i64::MAX - 1, i64::MAX]), 40)
    } else if !tiny() && r.chance(0.03) {
        // a long range: hundreds of consecutive keys, most of them mutated by nobody
        let n = *r.pick(&[65i64, 255, 256, 257, 300, 513, 600]);
        (n, n * 2 + 24)
    } else {
        let n = *r.pick(&[0i64, 1, 1, 2, 3, 4]);
        (n, n * 2 + n * 4 + 1)
    };
    let ext = r.chance(0.4);
    // sometimes the read sits behind control flow: a Halt that is jumped over, or a conditional halt / panic that
    // is not taken (whether a program reads post-state is a property of the program, not of its first ops)
    match r.below(12) {
        0 => o.extend([PUSH(2), PUSH(1), JMPIF, HLT]),
        1 => o.extend([PUSH(0), HLTIF]),
        2 => o.extend([PUSH(0), PNCIF, PUSH(3), PUSH(1), JMPIF, HLT, HLT]),
        _ => {}
    }
    // stack: [.., (contract words), key.., klen, n, addr]
    if ext {
        let c = r.pick(contracts).clone();
        o.extend(crate::model::word_4_from_u8_32(c.0).map(PUSH));
    }
    o.extend(key.iter().map(|w| PUSH(*w)));
    o.extend([PUSH(key.len() as Word), PUSH(n), PUSH(room), ALOC]); // ALOC leaves the address
    o.push(match (post, ext) {
        (false, false) => KRNG,
        (false, true) => KREX,
        (true, false) => PKRNG,
        (true, true) => PKREX,
    });
    // observed beacon: MAGIC, B_OBS, tag, abs, n, base, <room words just written>
    o.extend([PUSH(MAGIC), PUSH(B_OBS)]);
    push_tag(o);
    o.extend([PUSH(abs), PUSH(n)]);
    // address of the block = memory length - room (kept in the key so that the checker can make
    // the [address, length] pairs relative: they depend on how much memory the node inherited)
    o.extend([PUSH(0), ALOC, PUSH(room), SUB, DUP, PUSH(room), LODR]);
    o.extend([PUSH(6 + room), PUSH(0), PUSH(0), KRNG]);
}

/// Ops that succeed on any input and change what flows downstream.
fn producer(o: &mut Vec<Op>, r: &mut Rng) {
    for _ in 0..r.below(4) {
        match r.below(10) {
            0 => o.push(PUSH(r.range(0, 1000))),
            1 => {
                // tag-dependent value
                push_tag(o);
                o.extend([PUSH(r.range(1, 9)), MUL]);
            }
            2 => o.extend([PUSH(r.range(0, 1000)), PUSH(1), ALOC, STO]),
            3 => o.extend([PUSH(0), RES]), // current depth
            4 => o.extend([PUSH(0), ALOC]), // current memory length
            5 => {
                // second word of slot 0 if present, else a constant
                o.extend([PUSH(0), DLEN, PUSH(r.range(0, 50)), ADD]);
            }
            6 => {
                // a fork inside a loop: every child records the loop counter it sees (its parent's), then odd
                // children leave - through a jump to ComputeEnd - while a loop of their own is still active
                let n = if tiny() { 3 } else { *r.pick(&[3i64, 8, 40, 96]) };
                o.extend([PUSH(2), PUSH(1), REP, PUSH(n), COM]);
                o.extend([REPC, PUSH(1), ALOC, STO, PUSH(1), BAND]);
                o.extend([PUSH(3), PUSH(0), REP, DUP, PUSH(2), SWAP, JMPIF, REPE, COME, REPE]);
            }
            7 => {
                // fork: every child records its index (and the word it inherited) in its memory
                let n = r.range(1, 6);
                o.extend([PUSH(r.range(0, 9)), PUSH(n), COM, PUSH(1), ALOC, STO, COME, POP]);
            }
            8 => {
                // fork whose children consume the word they inherited (each child's stack is a private copy)
                let n = if tiny() { 2 } else { *r.pick(&[2i64, 5, 16, 64]) };
                o.extend([PUSH(r.range(100, 200)), PUSH(n), COM, POP, PUSH(1), ALOC, STO, PUSH(7), COME, POP]);
            }
            _ => o.extend([PUSH(r.range(1, 4)), ALOC, POP]),
        }
    }
}

/// Ops that fail on some inputs.
fn risky(o: &mut Vec<Op>, r: &mut Rng) {
    match r.below(6) {
        0 => o.push(POP),
        1 => o.extend([PUSH(1), PNCIF]),
        2 => o.extend([ADD]),
        3 => o.extend([PUSH(5000), RES]),
        4 => o.extend([PUSH(11000), ALOC]),
        _ => o.extend([PUSH(r.range(0, 3)), LOD]),
    }
}

fn clear_stack(o: &mut Vec<Op>) {
    o.extend([PUSH(0), RES, DROP]);
}

/// Fold the whole input (every stack word and every memory word) into one word `D`, leave `[D]` on
/// the stack and announce it with a digest beacon. Works on any input; makes everything that flowed
/// into the leaf visible in its verdict / data output and at the API boundary.
fn digest(o: &mut Vec<Op>, abs: Word) {
    // sum of the stack: two extra zeros so that there are always >= 2 words, then depth-1 additions
    o.extend([PUSH(0), PUSH(0), PUSH(0), RES, PUSH(1), SUB, PUSH(1), REP, ADD, REPE]);
    // plus every memory word (one extra zero word so that the loop body is always valid)
    o.extend([PUSH(1), ALOC, POP, PUSH(0), ALOC, PUSH(1), REP, REPC, LOD, ADD, REPE]);
    // beacon: MAGIC, B_DIGEST, tag, abs, D
    o.extend([PUSH(MAGIC), PUSH(B_DIGEST)]);
    push_tag(o);
    o.extend([PUSH(abs), PUSH(4), DUPF, PUSH(5), PUSH(0), PUSH(0), KRNG]);
}

/// Leaf that ends with exactly `[r]`, r computed from the digest of its input.
fn constraint_leaf(o: &mut Vec<Op>, _r: &mut Rng, want_false: bool) {
    o.extend([PUSH(97), MOD, PUSH(13), EQ, NOT]);
    if want_false {
        o.push(NOT);
    }
}

/// Leaf that writes a mutation list into memory and ends with `[2]`.
fn data_leaf(o: &mut Vec<Op>, r: &mut Rng, keys: &[Vec<Word>], hostile: bool) {
    // stack: [D] (digest of the whole input); the value word is D + tag
    push_tag(o);
    o.push(ADD);
    o.extend([PUSH(0), FREE]); // memory = []
    // build: count, (klen, key.., vlen, value..)*
    let mut words: Vec<Op> = vec![];
    let mut len = 0i64;
    if hostile {
        match r.below(5) {
            0 => {
                words.extend([PUSH(1), PUSH(1), PUSH(5)]); // truncated: no value length
                len = 3;
            }
            1 => {
                words.extend([PUSH(-1)]);
                len = 1;
            }
            2 => {
                words.extend([PUSH(1), PUSH(-3), PUSH(0)]);
                len = 3;
            }
            3 => {
                words.extend([PUSH(i64::MAX)]);
                len = 1;
            }
            _ => {
                words.extend([PUSH(1), PUSH(0), PUSH(i64::MAX), PUSH(1)]);
                len = 4;
            }
        }
        o.push(POP);
        o.extend(words);
    } else {
        // v is on the stack; it becomes the single word of the first value
        let n = keys.len() as i64;
        // layout with v first so that it can be placed: count, klen, key.., 1, v, then the rest
        // push in memory order; v must be swapped into place
        // stack now: [v]; we want: [count, klen0, key0.., 1, v, klen1, key1.., vlen1, value1..]
        let k0 = &keys[0];
        // bring v to the right position: push the prefix, then move v up with SWAPI
        let prefix: Vec<Word> = [n].into_iter().chain([k0.len() as Word]).chain(k0.iter().copied()).chain([1]).collect();
        for w in &prefix {
            o.push(PUSH(*w));
        }
        // stack: [v, prefix..]; rotate v to the top: swap bottom with top repeatedly is costly; instead
        // duplicate v from depth and zero the original later by STOS.
        o.extend([PUSH(prefix.len() as Word), DUPF]); // copies v to the top
        len += prefix.len() as i64 + 1;
        for k in &keys[1..] {
            let val = gen_value(r);
            o.push(PUSH(k.len() as Word));
            o.extend(k.iter().map(|w| PUSH(*w)));
            o.push(PUSH(val.len() as Word));
            o.extend(val.iter().map(|w| PUSH(*w)));
            len += 2 + k.len() as i64 + val.len() as i64;
        }
    }
    // stack: [v?, words..]; allocate and store the top `len` words at address 0
    o.extend([PUSH(len), PUSH(len), ALOC, STOR]);
    clear_stack(o);
    o.push(PUSH(2));
}

struct AbsGraph {
    children: Vec<Vec<usize>>,
}

fn gen_dag(r: &mut Rng, n: usize) -> AbsGraph {
    let mut ch: Vec<Vec<usize>> = vec![vec![]; n];
    match r.below(5) {
        0 => {
            // chain
            for i in 0..n.saturating_sub(1) {
                ch[i].push(i + 1);
            }
        }
        1 => {
            // fan out / fan in
            if n >= 3 {
                for i in 1..n - 1 {
                    ch[0].push(i);
                    ch[i].push(n - 1);
                }
            } else if n == 2 {
                ch[0].push(1);
            }
        }
        _ => {
            let p = [0.15, 0.3, 0.5][r.below(3)];
            for i in 0..n {
                for j in i + 1..n {
                    if r.chance(p) {
                        ch[i].push(j);
                        if r.chance(0.12) {
                            ch[i].push(j); // multi-edge
                        }
                    }
                }
            }
        }
    }
    AbsGraph { children: ch }
}

/// A mid-size random DAG (13..160 nodes): every node has 0-3 children among the later nodes, some of them close by
/// (long paths), some far away (wide levels).
fn gen_sparse_dag(r: &mut Rng, n: usize) -> AbsGraph {
    let mut ch: Vec<Vec<usize>> = vec![vec![]; n];
    for i in 0..n - 1 {
        for _ in 0..r.below(4) {
            let j = if r.chance(0.5) { (i + 1 + r.below(3)).min(n - 1) } else { i + 1 + r.below(n - i - 1) };
            ch[i].push(j);
        }
    }
    AbsGraph { children: ch }
}

/// A graph at the validator's limits: a chain, or a fan of many leaves (at most 1000 edges).
fn gen_big_dag(r: &mut Rng, n: usize) -> AbsGraph {
    let mut ch: Vec<Vec<usize>> = vec![vec![]; n];
    if r.chance(0.5) {
        for i in 0..n - 1 {
            ch[i].push(i + 1);
        }
    } else {
        // a few roots in a chain, everything else a leaf below the last of them
        let roots = 1 + r.below(3);
        for i in 0..roots - 1 {
            ch[i].push(i + 1);
        }
        for j in roots..n.min(roots + 998) {
            ch[roots - 1].push(j);
        }
    }
    AbsGraph { children: ch }
}

/// Encode an abstract DAG under a random numbering. Returns (predicate-without-programs, order)
/// where `order[index] = abstract id`.
fn encode_graph(r: &mut Rng, g: &AbsGraph) -> (Vec<(Edge, usize)>, Vec<Edge>, Vec<usize>) {
    let n = g.children.len();
    let mut order: Vec<usize> = (0..n).collect();
    match r.below(4) {
        0 => {}                  // topological numbering
        1 => order.reverse(),    // reverse topological
        _ => r.shuffle(&mut order),
    }
    // leaves encoded with the marker must come after every non-leaf: move them to the end with
    // probability 1/2; otherwise encode interleaved leaves as empty slices.
    let marker_leaves = r.chance(0.5);
    if marker_leaves {
        let (nl, l): (Vec<usize>, Vec<usize>) = order.iter().partition(|a| !g.children[**a].is_empty());
        order = nl.into_iter().chain(l).collect();
    }
    let mut num = vec![0usize; n];
    for (ix, a) in order.iter().enumerate() {
        num[*a] = ix;
    }
    let mut nodes = vec![];
    let mut edges: Vec<Edge> = vec![];
    for a in &order {
        let mut cs: Vec<Edge> = g.children[*a].iter().map(|c| num[*c] as Edge).collect();
        r.shuffle(&mut cs);
        if cs.is_empty() && marker_leaves {
            nodes.push((Edge::MAX, *a));
        } else {
            nodes.push((edges.len() as Edge, *a));
            edges.extend(cs);
        }
    }
    (nodes, edges, order)
}

pub fn gen_scenario(r: &mut Rng, o: &GenOpts) -> Scenario {
    let npred = 1 + r.below(3);
    let contracts_pool: Vec<ContentAddress> = (0..3u8).map(|i| ContentAddress([0x60 + i; 32])).collect();
    let mut predicates = vec![];
    let mut programs = vec![];
    let mut abs_ids = vec![];
    let mut contracts = vec![];
    let mut data_keys: Vec<Vec<Vec<Vec<Word>>>> = vec![]; // per predicate, per data leaf: keys it writes
    for pidx in 0..npred {
        let mut computed = 0i64;
        let big = r.chance(o.big_graphs);
        let mid = !big && r.chance(o.p_mid_graphs);
        let n = if big {
            *r.pick(&[200usize, 999, 1000])
        } else if mid {
            13 + r.below(150)
        } else {
            match r.below(10) {
                0 => 1,
                1 => 2,
                _ => 1 + r.below(o.max_nodes),
            }
        };
        let g = if big {
            gen_big_dag(r, n)
        } else if mid {
            gen_sparse_dag(r, n)
        } else {
            gen_dag(r, n)
        };
        let (nodes, edges, _order) = encode_graph(r, &g);
        let mut progs = vec![];
        let mut ids = vec![];
        let mut pk = vec![];
        for (_, a) in &nodes {
            let abs = *a as Word + 1;
            let leaf = g.children[*a].is_empty();
            let mut ops = vec![];
            prelude(&mut ops, abs);
            if r.chance(o.p_fail) {
                risky(&mut ops, r);
            }
            if !leaf {
                producer(&mut ops, r);
                if r.chance(o.p_post) {
                    reader(&mut ops, r, abs, true, &contracts_pool, o.hostile_reads);
                }
                if r.chance(0.2) {
                    reader(&mut ops, r, abs, false, &contracts_pool, o.hostile_reads);
                }
                producer(&mut ops, r);
                epilogue(&mut ops, abs);
            } else {
                if r.chance(o.p_post * 0.6) {
                    reader(&mut ops, r, abs, true, &contracts_pool, o.hostile_reads);
                }
                digest(&mut ops, abs);
                if r.chance(o.p_data_leaf) {
                    let nk = 1 + r.below(3);
                    let mut keys: Vec<Vec<Word>> = vec![];
                    for _ in 0..nk {
                        // computed keys live in their own range so that overlaps are deliberate
                        let k = if r.chance(o.p_overlap) {
                            vec![r.range(0, 5)]
                        } else {
                            computed += 1;
                            if pidx == 0 && computed <= 3 { vec![4 + computed] } else { vec![3, 10 * pidx as i64 + computed] }
                        };
                        if !keys.contains(&k) || r.chance(0.05) {
                            keys.push(k);
                        }
                    }
                    if r.chance(o.p_overlap.max(0.02)) {
                        // the same key twice inside one output block
                        let k = keys[0].clone();
                        keys.push(k);
                    }
                    let hostile = r.chance(o.hostile_outputs);
                    data_leaf(&mut ops, r, &keys, hostile);
                    pk.push(keys);
                } else if r.chance(0.06) {
                    // sloppy leaf: several words, top is 1 or 2 -> must count as unsatisfied
                    ops.extend([PUSH(7), PUSH(*r.pick(&[1, 2]))]);
                } else {
                    let want_false = r.chance(o.p_fail);
                    constraint_leaf(&mut ops, r, want_false);
                }
                // leaves end right after their verdict: no epilogue (it would disturb the stack)
            }
            let mut program = prog(&ops);
            // (only programs without a post-read opcode byte anywhere: what the effect scan makes of malformed
            // bytecode is not specified)
            if r.chance(o.p_fail * 0.25) && !program.0.iter().any(|b| *b == 0x82 || *b == 0x83) {
                // bytecode that does not parse: an undefined opcode at the end, or a final Push cut short
                // (the node fails before any of its operations runs; nothing of it may be evaluated)
                if r.chance(0.5) {
                    program.0.push(*r.pick(&[0x00u8, 0xff, 0x32]));
                } else {
                    program.0.extend([0x01, 0x00, 0x00, 0x07]);
                }
            }
            progs.push(program);
            ids.push(abs);
        }
        let mut pred = Predicate {
            nodes: nodes.iter().zip(&progs).map(|((es, _), p)| Node { edge_start: *es, program_address: content_addr(p) }).collect(),
            edges,
        };
        if r.chance(o.p_raw_graph) {
            // raw, possibly malformed / cyclic encoding over the same programs
            match r.below(5) {
                0 => {
                    if !pred.edges.is_empty() {
                        let i = r.below(pred.edges.len());
                        pred.edges[i] = r.below(pred.nodes.len() + 3) as Edge;
                    }
                }
                1 => {
                    let i = r.below(pred.nodes.len());
                    pred.nodes[i].edge_start = *r.pick(&[0, 1, 2, 5, 999, Edge::MAX - 1, Edge::MAX]);
                }
                2 => pred.edges.push(r.below(pred.nodes.len() + 2) as Edge),
                3 => {
                    // self loop / back edge
                    let i = r.below(pred.nodes.len());
                    pred.nodes[i].edge_start = pred.edges.len() as Edge;
                    pred.edges.push(r.below(i + 1) as Edge);
                }
                _ => {
                    for e in pred.edges.iter_mut() {
                        if r.chance(0.3) {
                            *e = r.below(pred.nodes.len()) as Edge;
                        }
                    }
                }
            }
        }
        predicates.push(pred);
        programs.push(progs);
        abs_ids.push(ids);
        contracts.push(r.pick(&contracts_pool).clone());
        data_keys.push(pk);
    }
    // pre-state
    let mut pre = vec![];
    for c in &contracts_pool {
        for k in 0..KEYSPACE {
            if r.chance(0.6) {
                pre.push((c.clone(), vec![k], gen_value(r)));
            }
        }
        for k in [vec![i64::MAX], vec![0, i64::MAX], vec![1, i64::MIN], vec![1, 1], vec![]] {
            if r.chance(0.5) {
                pre.push((c.clone(), k, gen_value(r)));
            }
        }
    }
    // fault injection: reads whose range covers one of these keys fail with a state error
    let mut poison = vec![];
    if r.chance(o.p_poison) {
        for _ in 0..1 + r.below(2) {
            poison.push((r.pick(&contracts_pool).clone(), gen_read_key(r)));
        }
    }
    // solutions
    // mostly small sets; sometimes mid-size (17..=40: several rayon jobs / batches of solutions) or the maximum
    let ns = if r.chance(0.004) {
        100
    } else if r.chance(o.p_mid_sets) {
        17 + r.below(24)
    } else {
        1 + r.below(o.max_solutions)
    };
    let mut solutions = vec![];
    let mut sol_pred = vec![];
    let mut taken: std::collections::BTreeMap<(ContentAddress, Vec<Word>), Vec<Word>> = Default::default();
    for si in 0..ns {
        let p = r.below(npred);
        let addr = PredicateAddress { contract: contracts[p].clone(), predicate: content_addr(&predicates[p]) };
        let mut muts: Vec<Mutation> = vec![];
        for _ in 0..r.below(4) {
            let key = gen_key(r);
            if muts.iter().any(|m| m.key == key) {
                continue;
            }
            let mut value = gen_value(r);
            let gk = (addr.contract.clone(), key.clone());
            match taken.get(&gk) {
                Some(v) if !o.allow_conflicts => value = v.clone(),
                _ => {}
            }
            taken.insert(gk, value.clone());
            muts.push(Mutation { key, value });
        }
        let mut data = vec![vec![1000 + si as Word, r.range(0, 9)]];
        for _ in 0..r.below(3) {
            data.push((0..r.below(4)).map(|_| r.range(0, 100)).collect());
        }
        solutions.push(Solution { predicate_to_solve: addr, predicate_data: data, state_mutations: muts });
        sol_pred.push(p);
    }
    if solutions.len() < 100 && r.chance(o.p_dup_solution) {
        // the same solution once more, anywhere in the list (adjacent to its twin or not)
        let i = r.below(solutions.len());
        let at = r.below(solutions.len() + 1);
        let (s, p) = (solutions[i].clone(), sol_pred[i]);
        solutions.insert(at, s);
        sol_pred.insert(at, p);
    }
    Scenario {
        predicates,
        programs,
        abs_id: abs_ids,
        contracts,
        solutions,
        sol_pred,
        pre: ViewSpec { entries: pre, script: Script::Range, poison },
        collect_all: r.chance(0.5),
    }
}

/// The same scenario with every predicate's nodes renumbered by a random permutation
/// (same abstract graph, same programs).
pub fn renumber(r: &mut Rng, sc: &Scenario) -> Option<Scenario> {
    let mut out = sc.clone();
    for (pi, p) in sc.predicates.iter().enumerate() {
        let n = p.nodes.len();
        // abstract children through the documented slice rule
        let mut children: Vec<Vec<usize>> = vec![];
        for i in 0..n {
            let es = crate::formats::own_node_edges(p, i)?;
            if es.iter().any(|e| *e as usize >= n) {
                return None;
            }
            children.push(es.iter().map(|e| *e as usize).collect());
        }
        let mut order: Vec<usize> = (0..n).collect(); // new index -> old index
        r.shuffle(&mut order);
        let marker = r.chance(0.5);
        if marker {
            let (nl, l): (Vec<usize>, Vec<usize>) = order.iter().partition(|a| !children[**a].is_empty());
            order = nl.into_iter().chain(l).collect();
        }
        let mut newix = vec![0usize; n];
        for (ni, oi) in order.iter().enumerate() {
            newix[*oi] = ni;
        }
        let mut nodes = vec![];
        let mut edges: Vec<Edge> = vec![];
        let mut progs = vec![];
        let mut ids = vec![];
        for oi in &order {
            let cs: Vec<Edge> = children[*oi].iter().map(|c| newix[*c] as Edge).collect();
            let es = if cs.is_empty() && marker { Edge::MAX } else { edges.len() as Edge };
            if !(cs.is_empty() && marker) {
                edges.extend(cs);
            }
            nodes.push(Node { edge_start: es, program_address: p.nodes[*oi].program_address.clone() });
            progs.push(sc.programs[pi][*oi].clone());
            ids.push(sc.abs_id[pi][*oi]);
        }
        out.predicates[pi] = Predicate { nodes, edges };
        out.programs[pi] = progs;
        out.abs_id[pi] = ids;
    }
    for (si, s) in out.solutions.iter_mut().enumerate() {
        s.predicate_to_solve.predicate = content_addr(&out.predicates[sc.sol_pred[si]]);
    }
    Some(out)
}
