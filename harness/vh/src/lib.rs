//! Verification harness for essential-base: reference models, spies, generators and the
//! engines that run the real crates under monitors. See /verif/DESIGN.md.

pub mod codec;
pub mod formats;
pub mod limits;
pub mod model;
pub mod report;
pub mod rng;
pub mod scen;
pub mod scenengine;
pub mod scengen;
pub mod signeng;
pub mod state;
pub mod total;
pub mod vmcase;
pub mod vmengine;
pub mod vmgen;

use std::{io::{Seek, Write}, sync::Mutex};

#[derive(Clone, Debug)]
pub struct Args {
    pub engine: String,
    pub prop: String,
    pub tier: String,
    pub seed: u64,
    pub shard: u32,
    pub nshards: u32,
    pub out: String,
    /// Multiplier on the case budgets.
    pub scale: f64,
    /// Label of the build regime (dev / release / relchk / tsan ...), recorded as evidence.
    pub regime: String,
    pub extra: Vec<String>,
}

static WAL: Mutex<Option<std::fs::File>> = Mutex::new(None);

pub fn wal_open(path: &str) {
    if let Ok(f) = std::fs::File::create(path) {
        *WAL.lock().unwrap() = Some(f);
    }
}

/// Write-ahead record of the case about to be executed, so that a worker killed by an abort
/// (allocation failure, double panic) still leaves its witness behind.
pub fn wal(case: &dyn Fn() -> serde_json::Value) {
    let mut g = WAL.lock().unwrap_or_else(|e| e.into_inner());
    if let Some(f) = g.as_mut() {
        let bytes = serde_json::to_vec(&case()).unwrap_or_default();
        let _ = f.seek(std::io::SeekFrom::Start(0));
        let _ = f.write_all(format!("{:012}\n", bytes.len()).as_bytes());
        let _ = f.write_all(&bytes);
    }
}
