//! Scenario layer: solution sets checked against predicate graphs by the real checker,
//! judged against an independent sequential graph evaluator (C01, C02, C03, C04, C06, C16).

use crate::{
    formats::own_node_edges,
    state::{next_key, ReadEvent, Script, SpyLog, View, ViewSpec},
    vmcase::catch,
};
use essential_check::solution::{self as sol, CheckPredicateConfig, PredicateError, PredicatesError};
use essential_hash::content_addr;
use essential_types::{
    predicate::{Predicate, Program},
    solution::{Mutation, Solution, SolutionSet},
    ContentAddress, Key, PredicateAddress, Value, Word,
};
use essential_vm::{
    asm::{self, short::*, Op},
    Access, GasLimit, Memory, Stack, StateRead, Vm,
};
use serde::{Deserialize, Serialize};
use std::{
    collections::{BTreeMap, BTreeSet, HashMap},
    sync::{atomic::Ordering, Arc},
};

pub const MAGIC: Word = 0x5EED_BEAC_0000_0001;
pub const B_START: Word = 1;
pub const B_END: Word = 2;
pub const B_OBS: Word = 3;
pub const B_DIGEST: Word = 4;
/// Marker words the hook-level node spy looks for (`PUSH MAGIC_IN; <tag>; PUSH abs_id`).
pub const MAGIC_IN: Word = 0x5EED_1A70_0000_0002;
pub const MAGIC_OUT: Word = 0x5EED_0A70_0000_0003;
pub const MAGIC_OUT2: Word = 0x5EED_0A70_0000_0004;

#[derive(Clone, Debug, Serialize, Deserialize, PartialEq)]
pub struct Scenario {
    pub predicates: Vec<Predicate>,
    /// `programs[p][node]`
    pub programs: Vec<Vec<Program>>,
    /// `abs_id[p][node]`: the numbering-independent id baked into the node's beacons.
    pub abs_id: Vec<Vec<Word>>,
    pub contracts: Vec<ContentAddress>,
    pub solutions: Vec<Solution>,
    pub sol_pred: Vec<usize>,
    pub pre: ViewSpec,
    pub collect_all: bool,
}

impl Scenario {
    pub fn pred_addr(&self, p: usize) -> PredicateAddress {
        PredicateAddress {
            contract: self.contracts[p].clone(),
            predicate: content_addr(&self.predicates[p]),
        }
    }
    pub fn set(&self) -> SolutionSet {
        SolutionSet {
            solutions: self.solutions.clone(),
        }
    }
    pub fn tag(&self, sol_ix: usize) -> Word {
        self.solutions[sol_ix].predicate_data.first().and_then(|s| s.first()).copied().unwrap_or(-1)
    }
    pub fn hash(&self) -> u64 {
        crate::rng::fnv(&serde_json::to_vec(self).unwrap_or_default())
    }
    pub fn summary(&self) -> serde_json::Value {
        serde_json::json!({
            "predicates": self.predicates.iter().map(|p| serde_json::json!({"nodes": p.nodes.iter().map(|n| n.edge_start).collect::<Vec<_>>(), "edges": p.edges})).collect::<Vec<_>>(),
            "solutions": self.solutions.iter().zip(&self.sol_pred).map(|(s, p)| serde_json::json!({"predicate": p, "declared_mutations": s.state_mutations.len(), "data_slots": s.predicate_data.len()})).collect::<Vec<_>>(),
            "program_ops": self.programs.iter().map(|ps| ps.iter().map(|p| p.0.len()).collect::<Vec<_>>()).collect::<Vec<_>>(),
            "pre_state_entries": self.pre.entries.len(), "collect_all_failures": self.collect_all,
        })
    }
}

// ---------------------------------------------------------------------------------------
// Reference semantics

#[derive(Clone, Debug, PartialEq)]
pub enum SolFail {
    InvalidGraph,
    /// Root failures: failing nodes all of whose ancestors succeeded.
    Program(BTreeSet<usize>),
    /// Unsatisfied constraint leaves (only meaningful when no program failed).
    Unsat(BTreeSet<usize>),
    /// Data output is not a valid mutation encoding / duplicates a key.
    Mutations,
}

#[derive(Clone, Debug, PartialEq)]
pub enum RefVerdict {
    Ok {
        gas: u64,
        /// Final mutations per solution (declared ++ computed in evaluation order).
        mutations: Vec<Vec<Mutation>>,
    },
    /// Failing solutions with their classification. For `Mutations` failures the real checker
    /// reports only the first one it meets.
    Err {
        pass: u8,
        failing: BTreeMap<usize, SolFail>,
    },
    /// The properties do not say (documented preconditions broken, ambiguous encodings ...).
    Unspec(&'static str),
}

#[derive(Clone, Debug, Default)]
pub struct RefInfo {
    /// Per solution: deferred node set.
    pub deferred: Vec<BTreeSet<usize>>,
    /// Per solution: parents (ascending, with multiplicity).
    pub parents: Vec<Vec<Vec<usize>>>,
    /// Per solution: descendants of root failures (tolerated extra reports).
    pub tolerated: Vec<BTreeSet<usize>>,
    /// Per solution: the root failure a sequential evaluation meets first (level, then index).
    pub first_failure: Vec<Option<usize>>,
    /// Overlay (contract, key) -> value after pass 1.
    pub overlay: BTreeMap<(ContentAddress, Key), Value>,
    /// Same contract+key given different values by different solutions (D2 class).
    pub d2_conflict: bool,
    pub nodes_evaluated: u64,
    pub shapes: BTreeSet<String>,
    /// Beacons emitted while the reference evaluated the nodes (observed words of readers).
    pub ref_beacons: Vec<Beacon>,
}

/// Post-state view of the reference: pre-state overlaid with the set's mutations.
#[derive(Clone)]
pub struct Overlay {
    pub pre: View,
    pub map: Arc<BTreeMap<(ContentAddress, Key), Value>>,
}

impl StateRead for Overlay {
    type Error = String;
    fn key_range(&self, c: ContentAddress, key: Key, n: usize) -> Result<Vec<Vec<Word>>, String> {
        let mut out = vec![];
        let mut key = key;
        for _ in 0..n.min(crate::state::RANGE_CAP) {
            let v = match self.map.get(&(c.clone(), key.clone())) {
                Some(v) => v.clone(),
                None => self.pre.answer(&c, &key, 1)?.pop().unwrap_or_default(),
            };
            out.push(v);
            match next_key(key) {
                Some(k) => key = k,
                None => break,
            }
        }
        Ok(out)
    }
}

/// Own decoder of `count, (key_len, key.., value_len, value..)*`.
/// `Err(true)` = definitely malformed, `Err(false)` = the documentation does not say.
pub fn own_decode_mutations(ws: &[Word]) -> Result<Vec<Mutation>, bool> {
    let Some(&count) = ws.first() else { return Err(true) };
    if count < 0 {
        return Err(true);
    }
    if count == 0 {
        // an empty list; words after a zero count are not covered by the documented layout
        return if ws.len() == 1 { Ok(vec![]) } else { Err(false) };
    }
    let mut out = vec![];
    let mut i = 1usize;
    while i < ws.len() {
        let kl = ws[i];
        if kl < 0 {
            return Err(true);
        }
        let kl = kl as usize;
        if i + 1 + kl >= ws.len() {
            return Err(true);
        }
        let key = ws[i + 1..i + 1 + kl].to_vec();
        let vl = ws[i + 1 + kl];
        if vl < 0 {
            return Err(true);
        }
        let vl = vl as usize;
        let vs = i + 2 + kl;
        if vs.checked_add(vl).map_or(true, |e| e > ws.len()) {
            return Err(true);
        }
        out.push(Mutation { key, value: ws[vs..vs + vl].to_vec() });
        i = vs + vl;
    }
    if out.len() as Word != count {
        return Err(false);
    }
    Ok(out)
}

struct Graph {
    n: usize,
    children: Vec<Vec<usize>>,
    parents: Vec<Vec<usize>>,
    /// Kahn level of each node.
    level: Vec<usize>,
    topo: Vec<usize>,
}

fn build_graph(p: &Predicate) -> Option<Graph> {
    let n = p.nodes.len();
    let mut children = vec![];
    for i in 0..n {
        let es = own_node_edges(p, i)?;
        if es.iter().any(|e| *e as usize >= n) {
            return None;
        }
        children.push(es.into_iter().map(|e| e as usize).collect::<Vec<_>>());
    }
    let mut parents = vec![vec![]; n];
    for (pi, cs) in children.iter().enumerate() {
        for c in cs {
            parents[*c].push(pi);
        }
    }
    for ps in parents.iter_mut() {
        ps.sort();
    }
    // Kahn
    let mut indeg: Vec<usize> = parents.iter().map(|p| p.len()).collect();
    let mut level = vec![0usize; n];
    let mut ready: BTreeSet<usize> = (0..n).filter(|i| indeg[*i] == 0).collect();
    let mut topo = vec![];
    let mut cur = 0;
    while !ready.is_empty() {
        let this: Vec<usize> = ready.iter().copied().collect();
        ready.clear();
        for i in this {
            level[i] = cur;
            topo.push(i);
            for c in &children[i] {
                indeg[*c] -= 1;
                if indeg[*c] == 0 {
                    ready.insert(*c);
                }
            }
        }
        cur += 1;
    }
    if topo.len() != n {
        return None; // cycle
    }
    Some(Graph { n, children, parents, level, topo })
}

fn has_post_read(ops: &[Op]) -> bool {
    ops.iter().any(|o| *o == PKRNG || *o == PKREX)
}

pub struct NodeOut {
    pub stack: Vec<Word>,
    pub mem: Vec<Word>,
}

#[allow(clippy::too_many_arguments)]
fn exec_node<P: StateRead<Error = String>>(
    ops: &[Op],
    stack: Vec<Word>,
    mem: Vec<Word>,
    solutions: &Arc<Vec<Solution>>,
    index: usize,
    pre: &View,
    post: &P,
) -> Result<(NodeOut, u64), ()> {
    let mut vm = Vm::default();
    vm.stack = Stack::try_from(stack).map_err(|_| ())?;
    vm.memory = Memory::try_from(mem).map_err(|_| ())?;
    let views = (pre.clone(), PostRef(post));
    let gas = vm
        .exec_ops(ops, Access::new(solutions.clone(), index as u16), &views, &|_: &Op| 1, GasLimit::UNLIMITED)
        .map_err(|_| ())?;
    Ok((NodeOut { stack: vm.stack.to_vec(), mem: vm.memory.to_vec() }, gas))
}

struct PostRef<'a, P>(&'a P);
impl<P: StateRead<Error = String>> StateRead for PostRef<'_, P> {
    type Error = String;
    fn key_range(&self, c: ContentAddress, key: Key, n: usize) -> Result<Vec<Vec<Word>>, String> {
        self.0.key_range(c, key, n)
    }
}

#[derive(Clone, Debug)]
enum LeafOut {
    Sat,
    Unsat,
    Data(Vec<Word>),
}

struct PassResult {
    first_failure: Option<usize>,
    fail: Option<SolFail>,
    gas: u64,
    /// (level, node, memory) of data outputs
    data: Vec<(usize, usize, Vec<Word>)>,
    tolerated: BTreeSet<usize>,
}

/// Evaluate the nodes of `which` (a set closed under the pass structure) sequentially.
#[allow(clippy::too_many_arguments)]
fn eval_pass<P: StateRead<Error = String>>(
    g: &Graph,
    ops: &[Vec<Op>],
    parse_ok: &[bool],
    which: &BTreeSet<usize>,
    outs: &mut Vec<Option<NodeOut>>,
    solutions: &Arc<Vec<Solution>>,
    index: usize,
    pre: &View,
    post: &P,
    evaluated: &mut u64,
) -> PassResult {
    let mut failed: BTreeSet<usize> = BTreeSet::new(); // failed or downstream of a failure
    let mut roots: BTreeSet<usize> = BTreeSet::new();
    let mut unsat = BTreeSet::new();
    let mut data = vec![];
    let mut gas = 0u64;
    for &i in &g.topo {
        if !which.contains(&i) {
            continue;
        }
        if g.parents[i].iter().any(|p| failed.contains(p)) {
            failed.insert(i);
            continue;
        }
        let mut s = vec![];
        let mut m = vec![];
        for p in &g.parents[i] {
            let o = outs[*p].as_ref().expect("parent evaluated before child");
            s.extend_from_slice(&o.stack);
            m.extend_from_slice(&o.mem);
        }
        *evaluated += 1;
        let r = if !parse_ok[i] { Err(()) } else { exec_node(&ops[i], s, m, solutions, index, pre, post) };
        match r {
            Err(()) => {
                failed.insert(i);
                roots.insert(i);
            }
            Ok((o, g_)) => {
                gas = gas.saturating_add(g_);
                if g.children[i].is_empty() {
                    let lo = match o.stack[..] {
                        [1] => LeafOut::Sat,
                        [2] => LeafOut::Data(o.mem.clone()),
                        _ => LeafOut::Unsat,
                    };
                    match lo {
                        LeafOut::Sat => {}
                        LeafOut::Unsat => {
                            unsat.insert(i);
                        }
                        LeafOut::Data(mem) => data.push((g.level[i], i, mem)),
                    }
                }
                outs[i] = Some(o);
            }
        }
    }
    let tolerated: BTreeSet<usize> = failed.difference(&roots).copied().collect();
    let first_failure = roots.iter().copied().min_by_key(|n| (g.level[*n], *n));
    let fail = if !roots.is_empty() {
        Some(SolFail::Program(roots))
    } else if !unsat.is_empty() {
        Some(SolFail::Unsat(unsat))
    } else {
        None
    };
    data.sort_by_key(|(l, n, _)| (*l, *n));
    PassResult { first_failure, fail, gas, data, tolerated }
}

/// The reference evaluation of the two-pass check.
pub fn reference(sc: &Scenario) -> (RefVerdict, RefInfo) {
    let log = Arc::new(SpyLog::default());
    let (v, mut info) = reference_inner(sc, log.clone());
    info.ref_beacons = decode_beacons(&log.take());
    (v, info)
}

fn reference_inner(sc: &Scenario, log: Arc<SpyLog>) -> (RefVerdict, RefInfo) {
    let mut info = RefInfo::default();
    let ns = sc.solutions.len();
    let pre = View::new(0, &sc.pre, log);
    if !matches!(sc.pre.script, Script::Range) {
        return (RefVerdict::Unspec("scripted pre-state"), info);
    }
    // parse programs, build graphs
    let mut graphs: Vec<Option<Graph>> = vec![];
    let mut ops: Vec<Vec<Vec<Op>>> = vec![];
    let mut parse_ok: Vec<Vec<bool>> = vec![];
    for (pi, p) in sc.predicates.iter().enumerate() {
        graphs.push(build_graph(p));
        let mut po = vec![];
        let mut pk = vec![];
        for prog in &sc.programs[pi] {
            match asm::from_bytes(prog.0.iter().copied()).collect::<Result<Vec<_>, _>>() {
                Ok(o) => {
                    po.push(o);
                    pk.push(true);
                }
                Err(_) => {
                    po.push(vec![]);
                    pk.push(false);
                }
            }
        }
        ops.push(po);
        parse_ok.push(pk);
    }
    // deferred sets per predicate: post readers and all their descendants
    let mut deferred_p: Vec<BTreeSet<usize>> = vec![];
    for (pi, g) in graphs.iter().enumerate() {
        let mut d = BTreeSet::new();
        if let Some(g) = g {
            for &i in &g.topo {
                let own = if parse_ok[pi][i] {
                    has_post_read(&ops[pi][i])
                } else {
                    // effect analysis is only specified for well-formed bytecode
                    if asm::effects::bytes_contains_any(&sc.programs[pi][i].0, asm::effects::Effects::PostKeyRange | asm::effects::Effects::PostKeyRangeExtern) {
                        return (RefVerdict::Unspec("malformed program with post-read byte"), info);
                    }
                    false
                };
                if own || g.parents[i].iter().any(|p| d.contains(p)) {
                    d.insert(i);
                }
            }
        }
        deferred_p.push(d);
    }
    let mut sols = sc.solutions.clone();
    let arc1 = Arc::new(sols.clone());
    let mut outs: Vec<Vec<Option<NodeOut>>> = vec![];
    let mut failing: BTreeMap<usize, SolFail> = BTreeMap::new();
    let mut gas_total = 0u64;
    let mut pass1_data: Vec<Vec<(usize, usize, Vec<Word>)>> = vec![];
    info.deferred = sc.sol_pred.iter().map(|p| deferred_p[*p].clone()).collect();
    info.tolerated = vec![BTreeSet::new(); ns];
    info.first_failure = vec![None; ns];
    // ---- pass 1
    for si in 0..ns {
        let pi = sc.sol_pred[si];
        let Some(g) = &graphs[pi] else {
            failing.insert(si, SolFail::InvalidGraph);
            outs.push(vec![]);
            pass1_data.push(vec![]);
            info.parents.push(vec![]);
            continue;
        };
        info.parents.push(g.parents.clone());
        info.shapes.insert(format!("n{}e{}d{}L{}", g.n, g.children.iter().map(|c| c.len()).sum::<usize>(), deferred_p[pi].len(), g.level.iter().max().map_or(0, |m| m + 1)));
        let which: BTreeSet<usize> = (0..g.n).filter(|i| !deferred_p[pi].contains(i)).collect();
        let mut o: Vec<Option<NodeOut>> = (0..g.n).map(|_| None).collect();
        let empty_overlay = Overlay { pre: pre.clone(), map: Arc::new(BTreeMap::new()) };
        let r = eval_pass(g, &ops[pi], &parse_ok[pi], &which, &mut o, &arc1, si, &pre, &empty_overlay, &mut info.nodes_evaluated);
        gas_total = gas_total.saturating_add(r.gas);
        if let Some(f) = r.fail {
            failing.insert(si, f);
            info.tolerated[si] = r.tolerated;
            info.first_failure[si] = r.first_failure;
        }
        pass1_data.push(r.data);
        outs.push(o);
    }
    if !failing.is_empty() {
        return (RefVerdict::Err { pass: 1, failing }, info);
    }
    // ---- decode pass-1 outputs
    let mut mut_fail = BTreeMap::new();
    for si in 0..ns {
        let mut keys: BTreeSet<Key> = sols[si].state_mutations.iter().map(|m| m.key.clone()).collect();
        for (_, _, mem) in &pass1_data[si] {
            match own_decode_mutations(mem) {
                Ok(ms) => {
                    for m in ms {
                        if !keys.insert(m.key.clone()) {
                            mut_fail.insert(si, SolFail::Mutations);
                        }
                        sols[si].state_mutations.push(m);
                    }
                }
                Err(true) => {
                    mut_fail.insert(si, SolFail::Mutations);
                }
                Err(false) => return (RefVerdict::Unspec("ambiguous mutation encoding"), info),
            }
            if mut_fail.contains_key(&si) {
                break;
            }
        }
    }
    if !mut_fail.is_empty() {
        return (RefVerdict::Err { pass: 1, failing: mut_fail }, info);
    }
    // ---- overlay
    let mut overlay: BTreeMap<(ContentAddress, Key), Value> = BTreeMap::new();
    for s in &sols {
        for m in &s.state_mutations {
            let k = (s.predicate_to_solve.contract.clone(), m.key.clone());
            if let Some(old) = overlay.get(&k) {
                if *old != m.value {
                    info.d2_conflict = true;
                }
            }
            overlay.insert(k, m.value.clone());
        }
    }
    info.overlay = overlay.clone();
    let post = Overlay { pre: pre.clone(), map: Arc::new(overlay) };
    // ---- pass 2
    let arc2 = Arc::new(sols.clone());
    let mut pass2_data: Vec<Vec<(usize, usize, Vec<Word>)>> = vec![];
    for si in 0..ns {
        let pi = sc.sol_pred[si];
        let g = graphs[pi].as_ref().unwrap();
        let which = deferred_p[pi].clone();
        let r = eval_pass(g, &ops[pi], &parse_ok[pi], &which, &mut outs[si], &arc2, si, &pre, &post, &mut info.nodes_evaluated);
        gas_total = gas_total.saturating_add(r.gas);
        if let Some(f) = r.fail {
            failing.insert(si, f);
            info.tolerated[si] = r.tolerated;
            info.first_failure[si] = r.first_failure;
        }
        pass2_data.push(r.data);
    }
    if !failing.is_empty() {
        return (RefVerdict::Err { pass: 2, failing }, info);
    }
    for si in 0..ns {
        let mut keys: BTreeSet<Key> = sols[si].state_mutations.iter().map(|m| m.key.clone()).collect();
        for (_, _, mem) in &pass2_data[si] {
            match own_decode_mutations(mem) {
                Ok(ms) => {
                    for m in ms {
                        if !keys.insert(m.key.clone()) {
                            mut_fail.insert(si, SolFail::Mutations);
                        }
                        sols[si].state_mutations.push(m);
                    }
                }
                Err(true) => {
                    mut_fail.insert(si, SolFail::Mutations);
                }
                Err(false) => return (RefVerdict::Unspec("ambiguous mutation encoding"), info),
            }
            if mut_fail.contains_key(&si) {
                break;
            }
        }
    }
    if !mut_fail.is_empty() {
        return (RefVerdict::Err { pass: 2, failing: mut_fail }, info);
    }
    (
        RefVerdict::Ok {
            gas: gas_total,
            mutations: sols.into_iter().map(|s| s.state_mutations).collect(),
        },
        info,
    )
}

// ---------------------------------------------------------------------------------------
// Real execution

#[derive(Clone, Debug, PartialEq)]
pub enum RealFail {
    InvalidGraph,
    Program(BTreeSet<usize>),
    Unsat(BTreeSet<usize>),
    Mutations,
}

#[derive(Clone, Debug, PartialEq)]
pub enum RealVerdict {
    Ok { gas: u64, mutations: Vec<Vec<Mutation>> },
    /// `order`: solutions and, per solution, nodes exactly in the order the checker reported them
    /// (part of "the same result" under every schedule; not used by the graph-level comparison).
    Err { failing: BTreeMap<usize, RealFail>, order: Vec<(usize, Vec<usize>)> },
    Other(String),
    Panic(String),
}

#[derive(Clone, Debug, PartialEq)]
pub struct Beacon {
    pub seq: u64,
    pub thread: u64,
    pub kind: Word,
    pub tag: Word,
    pub node: Word,
    pub payload: Vec<Word>,
}

pub struct RealRun {
    pub verdict: RealVerdict,
    pub beacons: Vec<Beacon>,
    pub events: Vec<ReadEvent>,
}

/// Node indices of one solution's error in reported order.
pub fn reported_nodes<E>(e: &PredicateError<E>) -> Vec<usize> {
    match e {
        PredicateError::InvalidNodeEdges(n) => vec![*n],
        PredicateError::ProgramErrors(pe) => pe.node_indices(),
        PredicateError::ConstraintsUnsatisfied(u) => u.0.clone(),
        PredicateError::Mutations(_) => vec![],
    }
}

pub fn classify<E>(e: &PredicateError<E>) -> RealFail {
    match e {
        PredicateError::InvalidNodeEdges(_) => RealFail::InvalidGraph,
        PredicateError::ProgramErrors(pe) => RealFail::Program(pe.node_indices().into_iter().collect()),
        PredicateError::ConstraintsUnsatisfied(u) => RealFail::Unsat(u.0.iter().copied().collect()),
        PredicateError::Mutations(_) => RealFail::Mutations,
    }
}

pub fn maps(sc: &Scenario) -> (HashMap<PredicateAddress, Arc<Predicate>>, HashMap<ContentAddress, Arc<Program>>) {
    let mut preds = HashMap::new();
    let mut progs = HashMap::new();
    for (pi, p) in sc.predicates.iter().enumerate() {
        preds.insert(sc.pred_addr(pi), Arc::new(p.clone()));
        for (ni, prog) in sc.programs[pi].iter().enumerate() {
            // the address the node names must resolve to this program
            progs.insert(p.nodes[ni].program_address.clone(), Arc::new(prog.clone()));
        }
    }
    (preds, progs)
}

pub fn decode_beacons(events: &[ReadEvent]) -> Vec<Beacon> {
    events
        .iter()
        .filter(|e| e.view == 0 && e.count == 0 && e.key.len() >= 4 && e.key[0] == MAGIC)
        .map(|e| Beacon {
            seq: e.seq,
            thread: e.thread,
            kind: e.key[1],
            tag: e.key[2],
            node: e.key[3],
            payload: e.key[4..].to_vec(),
        })
        .collect()
}

pub fn run_two_pass(sc: &Scenario, solutions: Vec<Solution>, pool: Option<&rayon::ThreadPool>, delay_seed: u64) -> RealRun {
    let log = Arc::new(SpyLog::default());
    log.delay_seed.store(delay_seed, Ordering::Relaxed);
    let pre = View::new(0, &sc.pre, log.clone());
    let (preds, progs) = maps(sc);
    let preds = Arc::new(preds);
    let progs = Arc::new(progs);
    let set = SolutionSet { solutions };
    let cfg = Arc::new(CheckPredicateConfig { collect_all_failures: sc.collect_all });
    let body = || {
        catch(|| {
            sol::check_and_compute_solution_set_two_pass(&pre, set.clone(), preds.clone(), progs.clone(), cfg.clone())
        })
    };
    let res = match pool {
        Some(p) => p.install(body),
        None => body(),
    };
    let verdict = match res {
        Err(p) => RealVerdict::Panic(p),
        Ok(Ok((gas, set))) => RealVerdict::Ok {
            gas,
            mutations: set.solutions.into_iter().map(|s| s.state_mutations).collect(),
        },
        Ok(Err(PredicatesError::Failed(errs))) => RealVerdict::Err {
            failing: errs.0.iter().map(|(i, e)| (*i as usize, classify(e))).collect(),
            order: errs.0.iter().map(|(i, e)| (*i as usize, reported_nodes(e))).collect(),
        },
        Ok(Err(e)) => RealVerdict::Other(format!("{e}")),
    };
    let events = log.take();
    RealRun { verdict, beacons: decode_beacons(&events), events }
}

/// The two run modes called in sequence over one shared cache, with a harness-owned post-state
/// view (the overlay is built by the harness from the first phase's outputs with its own decoder).
pub fn run_two_phase_manual(sc: &Scenario, pool: Option<&rayon::ThreadPool>, per_solution: bool) -> RealRun {
    use essential_check::solution::{check_predicate, check_set_predicates, Ctx, DataFromSolution, DataOutput, Outputs, PredicateErrors, RunMode};
    let log = Arc::new(SpyLog::default());
    let pre = View::new(0, &sc.pre, log.clone());
    let (preds, progs) = maps(sc);
    let preds = Arc::new(preds);
    let progs = Arc::new(progs);
    let cfg = Arc::new(CheckPredicateConfig { collect_all_failures: sc.collect_all });
    let body = || {
        type Failing = (BTreeMap<usize, RealFail>, Vec<(usize, Vec<usize>)>);
        catch(|| -> Result<(u64, Vec<Vec<Mutation>>), Result<Failing, String>> {
            let fail = |e: PredicatesError<String>| match e {
                PredicatesError::Failed(errs) => Ok((
                    errs.0.iter().map(|(i, e)| (*i as usize, classify(e))).collect(),
                    errs.0.iter().map(|(i, e)| (*i as usize, reported_nodes(e))).collect(),
                )),
                other => Err(format!("{other}")),
            };
            let mut cache = HashMap::new();
            let mut sols = sc.solutions.clone();
            // `check_set_predicates`, or (per_solution) the single-predicate entry point `check_predicate`
            // called once per solution with that solution's cache: both must give the same outputs
            let csp = |state: &(View, Overlay), sols: &Vec<Solution>, mode: RunMode, cache: &mut HashMap<u16, sol::Cache>| -> Result<Outputs, PredicatesError<String>> {
                let set = Arc::new(SolutionSet { solutions: sols.clone() });
                if !per_solution {
                    return check_set_predicates(state, set, preds.clone(), progs.clone(), cfg.clone(), mode, cache);
                }
                let (mut failed, mut data, mut gas) = (vec![], vec![], 0u64);
                for (i, s) in sols.iter().enumerate() {
                    let pred = preds.get(&s.predicate_to_solve).cloned().expect("scenario predicate");
                    let c = cache.entry(i as u16).or_default();
                    match check_predicate(state, set.clone(), pred, progs.clone(), i as u16, &cfg, Ctx { run_mode: mode, cache: c }) {
                        Ok((g, d)) => {
                            gas = gas.saturating_add(g);
                            data.push(DataFromSolution { solution_index: i as u16, data: d });
                        }
                        Err(e) => failed.push((i as u16, e)),
                    }
                }
                if !failed.is_empty() {
                    return Err(PredicatesError::Failed(PredicateErrors(failed)));
                }
                Ok(Outputs { gas, data })
            };
            // phase 1: outputs; post view = pre-state (no mutations known yet)
            let empty = Overlay { pre: pre.clone(), map: Arc::new(BTreeMap::new()) };
            let out1 = csp(&(pre.clone(), empty), &sols, RunMode::Outputs, &mut cache).map_err(fail)?;
            let mut gas = out1.gas;
            let apply = |outs: essential_check::solution::Outputs, sols: &mut Vec<Solution>| -> Result<(), Result<Failing, String>> {
                for d in outs.data {
                    let si = d.solution_index as usize;
                    let mut keys: BTreeSet<Key> = sols[si].state_mutations.iter().map(|m| m.key.clone()).collect();
                    for o in d.data {
                        let DataOutput::Memory(mem) = o;
                        match own_decode_mutations(&mem) {
                            Ok(ms) => {
                                for m in ms {
                                    if !keys.insert(m.key.clone()) {
                                        return Err(Ok(([(si, RealFail::Mutations)].into_iter().collect(), vec![(si, vec![])])));
                                    }
                                    sols[si].state_mutations.push(m);
                                }
                            }
                            Err(_) => return Err(Ok(([(si, RealFail::Mutations)].into_iter().collect(), vec![(si, vec![])]))),
                        }
                    }
                }
                Ok(())
            };
            apply(out1, &mut sols)?;
            let mut overlay = BTreeMap::new();
            for s in &sols {
                for m in &s.state_mutations {
                    overlay.insert((s.predicate_to_solve.contract.clone(), m.key.clone()), m.value.clone());
                }
            }
            let post = Overlay { pre: pre.clone(), map: Arc::new(overlay) };
            let out2 = csp(&(pre.clone(), post), &sols, RunMode::Checks, &mut cache).map_err(fail)?;
            gas = gas.saturating_add(out2.gas);
            apply(out2, &mut sols)?;
            Ok((gas, sols.into_iter().map(|s| s.state_mutations).collect()))
        })
    };
    let res = match pool {
        Some(p) => p.install(body),
        None => body(),
    };
    let verdict = match res {
        Err(p) => RealVerdict::Panic(p),
        Ok(Ok((gas, mutations))) => RealVerdict::Ok { gas, mutations },
        Ok(Err(Ok((failing, order)))) => RealVerdict::Err { failing, order },
        Ok(Err(Err(e))) => RealVerdict::Other(e),
    };
    let events = log.take();
    RealRun { verdict, beacons: decode_beacons(&events), events }
}

// ---------------------------------------------------------------------------------------
// Comparison

pub struct Issue {
    pub property: &'static str,
    pub kind: &'static str,
    pub detail: String,
    /// Position in the run's event order at which the anomaly became visible (u64::MAX = only at the end).
    pub seq: u64,
}

fn issue(v: &mut Vec<Issue>, property: &'static str, kind: &'static str, detail: String) {
    v.push(Issue { property, kind, detail, seq: u64::MAX });
}

fn issue_at(v: &mut Vec<Issue>, property: &'static str, kind: &'static str, detail: String, seq: u64) {
    v.push(Issue { property, kind, detail, seq });
}

/// Compare the real verdict with the reference verdict (graph-level semantics, C01).
pub fn compare_verdict(sc: &Scenario, rv: &RefVerdict, info: &RefInfo, real: &RealVerdict, out: &mut Vec<Issue>) {
    match (rv, real) {
        (_, RealVerdict::Panic(p)) => issue(out, "C06", "panic", format!("checker panicked: {p}")),
        (RefVerdict::Unspec(_), _) => {}
        (_, RealVerdict::Other(e)) => issue(out, "C01", "unexpected-error-class", format!("checker returned {e}")),
        (RefVerdict::Ok { gas, mutations }, RealVerdict::Ok { gas: g2, mutations: m2 }) => {
            if gas != g2 {
                issue(out, "C01", "gas", format!("total gas {g2}, reference {gas}"));
            }
            if mutations != m2 {
                let same_multiset = mutations.len() == m2.len()
                    && mutations.iter().zip(m2).all(|(a, b)| {
                        let (mut a, mut b) = (a.clone(), b.clone());
                        a.sort();
                        b.sort();
                        a == b
                    });
                issue(out, "C01", if same_multiset { "data-output-order" } else { "data-outputs" }, format!("computed mutations differ from the reference: real {m2:?} reference {mutations:?}"));
            }
        }
        (RefVerdict::Ok { gas, .. }, RealVerdict::Err { failing, .. }) => issue(out, "C01", "unexpected-failure", format!("reference accepts the set (gas {gas}) but the checker fails solutions {failing:?}")),
        (RefVerdict::Err { pass, failing }, RealVerdict::Ok { gas, .. }) => issue(out, "C01", "missing-failure", format!("checker accepts the set (gas {gas}) but the reference fails in pass {pass}: {failing:?}")),
        (RefVerdict::Err { pass, failing }, RealVerdict::Err { failing: rf, .. }) => {
            let mut_only = failing.values().all(|f| *f == SolFail::Mutations);
            if mut_only {
                // only the first decoding failure is reported
                let ok = rf.len() == 1 && rf.iter().all(|(i, f)| failing.contains_key(i) && *f == RealFail::Mutations);
                if !ok {
                    issue(out, "C01", "failing-solutions", format!("reference: mutation errors in {:?}; checker reports {rf:?}", failing.keys().collect::<Vec<_>>()));
                }
                return;
            }
            let exp: BTreeSet<usize> = failing.keys().copied().collect();
            let got: BTreeSet<usize> = rf.keys().copied().collect();
            if exp != got {
                issue(out, "C01", "failing-solutions", format!("failing solution indices {got:?}, reference {exp:?} (pass {pass})"));
                return;
            }
            for (si, f) in failing {
                let r = &rf[si];
                let ok = match (f, r) {
                    (SolFail::InvalidGraph, RealFail::InvalidGraph) => true,
                    (SolFail::Unsat(u), RealFail::Unsat(u2)) => u == u2,
                    (SolFail::Program(roots), RealFail::Program(got)) => {
                        if sc.collect_all {
                            roots.is_subset(got) && got.difference(roots).all(|n| info.tolerated[*si].contains(n))
                        } else {
                            // sequential evaluation stops at the first failure: earliest level, lowest index
                            let first = info.first_failure.get(*si).copied().flatten();
                            got.len() == 1 && got.is_subset(roots) && first.map_or(true, |f| got.contains(&f))
                        }
                    }
                    (SolFail::Mutations, RealFail::Mutations) => true,
                    _ => false,
                };
                if !ok {
                    issue(out, "C01", "failing-nodes", format!("solution {si}: checker reports {r:?}, reference {f:?} (tolerated downstream of failures: {:?})", info.tolerated[*si]));
                }
            }
        }
    }
}

/// Beacon-log checks: exactly-once, after-parents, pass separation (C01 / C03), observed words (C03).
pub fn check_beacons(sc: &Scenario, rv: &RefVerdict, info: &RefInfo, run: &RealRun, expected_obs: &BTreeMap<(Word, Word, usize), Vec<Word>>, out: &mut Vec<Issue>) {
    if matches!(rv, RefVerdict::Unspec(_)) {
        return;
    }
    let tag_to_sol: HashMap<Word, usize> = (0..sc.solutions.len()).map(|i| (sc.tag(i), i)).collect();
    if tag_to_sol.len() != sc.solutions.len() {
        return; // tags not unique: beacons cannot be attributed
    }
    // index: (sol, node index) -> [start seqs], [end seqs]
    let mut starts: BTreeMap<(usize, usize), Vec<u64>> = BTreeMap::new();
    let mut ends: BTreeMap<(usize, usize), Vec<u64>> = BTreeMap::new();
    let mut obs_seen: BTreeMap<(Word, Word), usize> = BTreeMap::new();
    let ref_started: BTreeSet<(Word, Word)> = info.ref_beacons.iter().filter(|b| b.kind == B_START).map(|b| (b.tag, b.node)).collect();
    for b in &run.beacons {
        let Some(&si) = tag_to_sol.get(&b.tag) else { continue };
        let pi = sc.sol_pred[si];
        let Some(ni) = sc.abs_id[pi].iter().position(|a| *a == b.node) else { continue };
        match b.kind {
            B_START => starts.entry((si, ni)).or_default().push(b.seq),
            B_END => ends.entry((si, ni)).or_default().push(b.seq),
            B_OBS => {
                let k = obs_seen.entry((b.tag, b.node)).or_insert(0);
                if let Some(exp) = expected_obs.get(&(b.tag, b.node, *k)) {
                    if normalise_obs(exp) != normalise_obs(&b.payload) {
                        issue_at(out, "C03", "observed-values", format!("solution tag {} node id {} read #{k}: observed {:?}, overlay says {exp:?}", b.tag, b.node, b.payload), b.seq);
                    }
                } else if ref_started.contains(&(b.tag, b.node)) && !sc.pre.poison.is_empty() {
                    // the reference evaluated this node but never got as far as announcing this read: its read failed
                    // (injected state error). The program under the real checker got a value instead of the error.
                    let post = info.deferred.get(si).is_some_and(|d| d.contains(&ni));
                    issue_at(
                        out,
                        if post { "C03" } else { "C11" },
                        "read-should-have-failed",
                        format!("solution tag {} node id {} read #{k} delivered {:?} although the state fails this read in the reference (a state error was swallowed or replaced by a value)", b.tag, b.node, tail(&b.payload)),
                        b.seq,
                    );
                }
                *k += 1;
            }
            _ => {}
        }
    }
    // leaf input digests against the reference's
    if matches!(rv, RefVerdict::Ok { .. }) {
        let (got, exp) = (digests(&run.beacons), digests(&info.ref_beacons));
        if got != exp {
            let k = exp.iter().find(|(k, v)| got.get(*k) != Some(*v)).map(|(k, v)| format!("tag {} node id {}: reference digest {v:?}, observed {:?}", k.0, k.1, got.get(k)));
            issue(out, "C01", "leaf-input-digest", format!("the digest of a leaf's whole input differs from the reference: {}", k.unwrap_or_default()));
        }
    }
    for ((si, ni), s) in &starts {
        if s.len() > 1 {
            issue(out, "C01", "executed-twice", format!("solution {si} node {ni} started {} times", s.len()));
        }
    }
    let all_ok = matches!(rv, RefVerdict::Ok { .. });
    for si in 0..sc.solutions.len() {
        let Some(parents) = info.parents.get(si) else { continue };
        for (ni, ps) in parents.iter().enumerate() {
            let st = starts.get(&(si, ni)).and_then(|v| v.first());
            if all_ok && st.is_none() {
                issue(out, "C01", "not-executed", format!("solution {si} node {ni} never started although the set was accepted"));
            }
            if let Some(st) = st {
                for p in ps {
                    match ends.get(&(si, *p)).and_then(|v| v.first()) {
                        Some(e) if e < st => {}
                        // a parent that never reached its end failed: only with collect_all_failures
                        // are its children run at all, and then nothing is demanded of them
                        // (programs written as leaves have no end beacon either)
                        None => {}
                        other => issue(out, "C01", "before-parent", format!("solution {si} node {ni} started (seq {st}) before its parent {p} ended ({other:?})")),
                    }
                }
            }
        }
    }
    // pass separation
    let mut last_pass1_end = 0u64;
    let mut first_deferred_start = u64::MAX;
    let mut last_nondeferred_start = 0u64;
    for ((si, ni), s) in &starts {
        let d = info.deferred.get(*si).is_some_and(|d| d.contains(ni));
        for &q in s {
            if d {
                first_deferred_start = first_deferred_start.min(q);
            } else {
                last_nondeferred_start = last_nondeferred_start.max(q);
            }
        }
    }
    for ((si, ni), e) in &ends {
        if !info.deferred.get(*si).is_some_and(|d| d.contains(ni)) {
            for &q in e {
                last_pass1_end = last_pass1_end.max(q);
            }
        }
    }
    if first_deferred_start != u64::MAX && (first_deferred_start < last_pass1_end || first_deferred_start < last_nondeferred_start) {
        issue(out, "C03", "deferred-too-early", format!("a post-state dependent node started at seq {first_deferred_start} before the first pass was complete (last first-pass event {})", last_pass1_end.max(last_nondeferred_start)));
    }
}

/// `[n, base, words..]` -> words with the value addresses made relative to the block start.
pub fn normalise_obs(p: &[Word]) -> Vec<Word> {
    if p.len() < 2 {
        return p.to_vec();
    }
    let (n, base) = (p[0], p[1]);
    let mut w = p[2..].to_vec();
    // the number of values actually returned (<= n: a range ends when the key overflows) follows from
    // the first pair: the first value sits right behind the k [address, length] pairs
    let k = match w.first() {
        Some(a) if *a >= base && (*a - base) % 2 == 0 && (*a - base) / 2 <= n.clamp(0, 2048) => ((*a - base) / 2) as usize,
        _ => 0,
    };
    for i in 0..k {
        if let Some(a) = w.get_mut(2 * i) {
            *a = a.wrapping_sub(base);
        }
    }
    let mut out = vec![n];
    out.extend(w);
    out
}

/// Leaf input digests announced by the run: (solution tag, node id) -> digests.
pub fn digests(beacons: &[Beacon]) -> BTreeMap<(Word, Word), Vec<Word>> {
    let mut m: BTreeMap<(Word, Word), Vec<Word>> = BTreeMap::new();
    for b in beacons.iter().filter(|b| b.kind == B_DIGEST) {
        m.entry((b.tag, b.node)).or_default().extend(b.payload.iter().copied());
    }
    m
}

/// Start-order signature of a run (for counting distinct interleavings).
pub fn order_signature(run: &RealRun) -> u64 {
    let mut h = 0xcbf2_9ce4_8422_2325u64;
    for b in &run.beacons {
        if b.kind == B_START || b.kind == B_END {
            h = crate::rng::mix(h, (b.kind as u64) << 48 ^ (b.tag as u64) << 24 ^ b.node as u64);
        }
    }
    h
}

// ---------------------------------------------------------------------------------------
// Node spy at the VM hook: what every node program actually started from / ended with

#[derive(Clone, Debug, PartialEq)]
pub struct NodeObs {
    /// 0 = reference evaluation, 1 = real checker run.
    pub phase: u8,
    pub tag: Word,
    pub abs: Word,
    pub stack: Vec<Word>,
    pub mem: Vec<Word>,
    pub output: bool,
}

#[derive(Default)]
pub struct NodeSpy {
    pub phase: std::sync::atomic::AtomicU8,
    pub obs: std::sync::Mutex<Vec<NodeObs>>,
    pub ops_seen: std::sync::atomic::AtomicU64,
}

impl essential_vm::verif::StepObserver for NodeSpy {
    fn after_op(&self, vm: &Vm, op: &Op, _gas: u64, failed: bool) {
        self.ops_seen.fetch_add(1, Ordering::Relaxed);
        if failed {
            return;
        }
        let Op::Stack(asm::Stack::Push(w)) = op else { return };
        let n = vm.stack.len();
        if vm.pc == 5 && n >= 3 && vm.stack[n - 3] == MAGIC_IN && vm.stack[n - 1] == *w {
            self.obs.lock().unwrap().push(NodeObs {
                phase: self.phase.load(Ordering::Relaxed),
                tag: vm.stack[n - 2],
                abs: *w,
                stack: vm.stack[..n - 3].to_vec(),
                mem: vm.memory.to_vec(),
                output: false,
            });
        } else if *w == MAGIC_OUT2 && n >= 4 && vm.stack[n - 4] == MAGIC_OUT {
            self.obs.lock().unwrap().push(NodeObs {
                phase: self.phase.load(Ordering::Relaxed),
                tag: vm.stack[n - 3],
                abs: vm.stack[n - 2],
                stack: vm.stack[..n - 4].to_vec(),
                mem: vm.memory.to_vec(),
                output: true,
            });
        }
    }
}

impl NodeSpy {
    pub fn install() -> Arc<NodeSpy> {
        let s = Arc::new(NodeSpy::default());
        essential_vm::verif::set_observer(Some(s.clone()));
        s
    }
    pub fn take(&self) -> Vec<NodeObs> {
        std::mem::take(&mut *self.obs.lock().unwrap())
    }
}

/// Every node the real run started must have started from exactly what the reference predicts,
/// and at most once (exactly once when the set is accepted).
pub fn check_node_inputs(rv: &RefVerdict, obs: &[NodeObs], beacons: &[Beacon], unique_tags: bool, out: &mut Vec<Issue>) -> (u64, u64) {
    let start_seq: BTreeMap<(Word, Word), u64> = beacons.iter().filter(|b| b.kind == B_START).map(|b| ((b.tag, b.node), b.seq)).collect();
    if matches!(rv, RefVerdict::Unspec(_)) {
        return (0, 0);
    }
    let mut expect_in: BTreeMap<(Word, Word), &NodeObs> = BTreeMap::new();
    let mut expect_out: BTreeMap<(Word, Word), &NodeObs> = BTreeMap::new();
    for o in obs.iter().filter(|o| o.phase == 0) {
        if o.output {
            expect_out.insert((o.tag, o.abs), o);
        } else {
            expect_in.insert((o.tag, o.abs), o);
        }
    }
    let mut seen: BTreeMap<(Word, Word), u32> = BTreeMap::new();
    let (mut compared, mut matched) = (0, 0);
    for o in obs.iter().filter(|o| o.phase == 1) {
        if o.output {
            if let Some(e) = expect_out.get(&(o.tag, o.abs)) {
                if e.stack != o.stack || e.mem != o.mem {
                    issue(out, "C01", "node-output", format!("node id {} of solution tag {} ended with stack {:?} / {} memory words; the reference node ends with {:?} / {}", o.abs, o.tag, tail(&o.stack), o.mem.len(), tail(&e.stack), e.mem.len()));
                }
            }
            continue;
        }
        *seen.entry((o.tag, o.abs)).or_insert(0) += 1;
        match expect_in.get(&(o.tag, o.abs)) {
            Some(e) => {
                compared += 1;
                if e.stack == o.stack && e.mem == o.mem {
                    matched += 1;
                } else {
                    issue_at(out, "C01", "node-input", format!("node id {} of solution tag {} started from stack {:?} (len {}) memory {:?} (len {}); concatenating its parents' results in ascending order gives stack {:?} (len {}) memory {:?} (len {})", o.abs, o.tag, tail(&o.stack), o.stack.len(), tail(&o.mem), o.mem.len(), tail(&e.stack), e.stack.len(), tail(&e.mem), e.mem.len()), start_seq.get(&(o.tag, o.abs)).copied().unwrap_or(u64::MAX - 1));
                }
            }
            None => {
                // the reference never ran this node: only legitimate downstream of a failure
                if matches!(rv, RefVerdict::Ok { .. }) {
                    issue(out, "C01", "unexpected-node", format!("node id {} of solution tag {} ran but the reference does not evaluate it", o.abs, o.tag));
                }
            }
        }
    }
    // a set that lists the same solution twice runs the same (tag, node) once per copy
    for (k, n) in seen.iter().filter(|_| unique_tags) {
        if *n > 1 {
            issue(out, "C01", "executed-twice", format!("node id {} of solution tag {} was started {n} times", k.1, k.0));
        }
    }
    if matches!(rv, RefVerdict::Ok { .. }) {
        for k in expect_in.keys() {
            if !seen.contains_key(k) {
                issue(out, "C01", "not-executed", format!("node id {} of solution tag {} was never started although the set was accepted", k.1, k.0));
            }
        }
    }
    (compared, matched)
}

fn tail(v: &[Word]) -> Vec<Word> {
    v[v.len().saturating_sub(6)..].to_vec()
}
