//! The VM engine: one set of executions, several oracles (C05, C07–C12, C14).

use crate::{
    model::{self, CostFn, Env, Slot},
    report::Report,
    rng::Rng,
    state::{Script, ViewSpec},
    vmcase::{self, judge, JudgeOpts, Monitor, Pools, VmCase},
    vmgen::{self, Focus, ALPHA, ALPHA_S},
    Args,
};
use essential_types::Word;
use essential_vm::asm::{self, short::*, Op};
use serde_json::json;
use std::sync::{atomic::Ordering, Arc};

struct Eng<'a> {
    rep: &'a mut Report,
    mon: Arc<Monitor>,
    pools: Pools,
    args: &'a Args,
    n: u64,
}

impl<'a> Eng<'a> {
    /// Shard filter for enumerated workloads.
    fn mine(&mut self) -> bool {
        self.n += 1;
        (self.n - 1) % self.args.nshards as u64 == self.args.shard as u64
    }

    fn run(&mut self, case: &VmCase, opts: JudgeOpts, kind: &str) {
        crate::wal(&|| json!({"engine": "vm", "case": case}));
        let out = judge(case, self.rep, &self.mon, &mut self.pools, opts);
        self.rep.count(&format!("workload.{kind}"));
        let ops = case.ops();
        let nontrivial = match kind {
            "matrix" | "two-op" | "three-op" | "control-matrix" | "read-matrix" | "access-matrix" | "compute-matrix" => {
                ops.iter().any(|o| !matches!(o, Op::Stack(asm::Stack::Push(_))))
            }
            _ => out.executed >= 3 && ops.iter().any(|o| !matches!(o, Op::Stack(asm::Stack::Push(_)))),
        };
        if nontrivial && out.unspec.is_none() {
            self.rep.nontrivial(case.hash());
        }
        self.rep.max("max_ops_executed_in_one_case", out.executed);
        self.rep.max("max_compute_children_in_one_case", out.children);
        if out.children > 0 && out.unspec.is_none() {
            self.rep.count("cases_with_compute_children");
        }
        let n = self.rep.samples.len();
        if n < 4 && (kind != "two-op" || n < 1) && out.unspec.is_none() && ops.len() <= 40 {
            let ok = out.ok;
            self.rep.sample(4, || json!({"workload": kind, "case": case.summary(), "ok": ok, "ops_executed": out.executed}));
        }
    }
}

fn single(ops: &[Op], base: &VmCase) -> VmCase {
    let mut c = base.clone();
    c.set_ops(ops);
    c
}

fn push_alphabet() -> Vec<Word> {
    vec![i64::MIN, -1, 0, 1, 2, 3, 8, 63, 64, 4095, 4096, 10240, 1 << 32, i64::MAX]
}

/// All programs of `len` ops over plain ops ∪ Push(boundary), from each seeded initial state.
fn exhaustive_short(e: &mut Eng, len: usize, states: &[usize]) {
    let mut alpha: Vec<Op> = vmgen::plain_ops();
    alpha.extend(push_alphabet().into_iter().map(PUSH));
    let mut r = Rng::new(e.args.seed ^ 0x51);
    let mut bases = vec![];
    for &s in states {
        let mut b = vmgen::base_case(&mut r);
        vmgen::boundary_state(&mut r, &mut b, s);
        if s % 4 == 3 {
            b.parent_memory = Some(vec![20, 21, 22]);
        }
        bases.push(b);
    }
    let kind = if len == 2 { "two-op" } else { "three-op" };
    let n = alpha.len();
    let total = n.pow(len as u32);
    for ix in 0..total {
        let mut ops = Vec::with_capacity(len);
        let mut k = ix;
        for _ in 0..len {
            ops.push(alpha[k % n]);
            k /= n;
        }
        // unguarded Compute with a huge breadth is pruned by the model (breadth cap)
        for b in &bases {
            if !e.mine() {
                continue;
            }
            let c = single(&ops, b);
            e.run(&c, JudgeOpts { mapped: false, lockstep: true, eval: false }, kind);
        }
    }
    e.rep.set("exhaustive_subspaces", format!("all {total} programs of {len} ops over {n} symbols x {} initial states", bases.len()));
}

/// Every plain op × every boundary operand pair (and triple over a smaller alphabet).
fn operand_matrix(e: &mut Eng, triples: bool) {
    let mut r = Rng::new(e.args.seed ^ 0x77);
    let base0 = vmgen::base_case(&mut r);
    let mk = |stack: Vec<Word>, mem: Vec<Word>, parent: Option<Vec<Word>>, rep: Vec<Slot>| {
        let mut b = base0.clone();
        b.stack = stack;
        b.memory = mem;
        b.parent_memory = parent;
        b.repeat = rep;
        b
    };
    let big_stack: Vec<Word> = (0..4094).map(|i| i % 7).collect();
    let big_mem: Vec<Word> = (0..10240).map(|i| i % 5).collect();
    let bases = vec![
        mk(vec![], vec![], None, vec![]),
        mk(vec![5, 6, 7], vec![10, 11, 12, 13], Some(vec![20, 21, 22]), vec![Slot { counter: 3, up_limit: None, idx: 0 }]),
        mk(big_stack, big_mem, None, vec![]),
    ];
    let ops = vmgen::plain_ops();
    // every op (Push included) with no operand, one operand and on a full stack: each op that can fail does
    let full: Vec<Word> = (0..4096).map(|i| i % 3).collect();
    for op in ops.iter().copied().chain([PUSH(1)]) {
        for stack in [vec![], vec![3], full.clone()] {
            if !e.mine() {
                continue;
            }
            let mut c = single(&[op], &bases[0]);
            c.stack = stack;
            e.run(&c, JudgeOpts { mapped: false, lockstep: true, eval: false }, "matrix");
        }
    }
    for op in &ops {
        for &a in ALPHA {
            for &b in ALPHA {
                for (bi, base) in bases.iter().enumerate() {
                    if !e.mine() {
                        continue;
                    }
                    let mut c = single(&[*op], base);
                    c.stack.extend([a, b]);
                    // an unguarded Compute re-executes itself forever when its children end at once
                    let _ = bi;
                    e.run(&c, JudgeOpts { mapped: false, lockstep: true, eval: false }, "matrix");
                }
            }
        }
        if triples {
            for &a in ALPHA_S {
                for &b in ALPHA_S {
                    for &c3 in ALPHA_S {
                        for base in bases.iter().take(2) {
                            if !e.mine() {
                                continue;
                            }
                            let mut c = single(&[*op], base);
                            c.stack.extend([a, b, c3]);
                            e.run(&c, JudgeOpts { mapped: false, lockstep: true, eval: false }, "matrix");
                        }
                    }
                }
            }
        }
    }
    e.rep.set(
        "exhaustive_subspaces",
        format!("every one of {} plain ops x all {} boundary operand pairs x {} machine states{}", ops.len(), ALPHA.len() * ALPHA.len(), bases.len(), if triples { " + all 1000 triples over a 10-value alphabet x 2 states" } else { "" }),
    );
}

/// EqSet over sets of 0..=130 elements: equal up to order, with repeats on either side (same set, more entries),
/// with one element replaced (same number of entries, different set), with an extra element, in both operand orders.
fn eqset_matrix(e: &mut Eng) {
    let mut r = Rng::new(e.args.seed ^ 0xe95e7);
    let base = vmgen::base_case(&mut r);
    let push_set = |ops: &mut Vec<Op>, s: &[Vec<Word>]| {
        let mut total = 0;
        for el in s {
            ops.extend(el.iter().map(|w| PUSH(*w)));
            ops.push(PUSH(el.len() as Word));
            total += el.len() as Word + 1;
        }
        ops.push(PUSH(total));
    };
    for n in [0usize, 1, 2, 3, 8, 15, 16, 17, 18, 31, 32, 33, 40, 64, 65, 100, 130] {
        let a: Vec<Vec<Word>> = (0..n).map(|i| vec![i as Word, (i * 7 % 5) as Word]).collect();
        let mut variants: Vec<Vec<Vec<Word>>> = vec![];
        let mut perm = a.clone();
        r.shuffle(&mut perm);
        variants.push(perm.clone());
        if n > 0 {
            let mut v = perm.clone();
            v.push(a[n / 2].clone()); // a repeat: same set
            variants.push(v);
            let mut v = perm.clone();
            v[0] = perm[n - 1].clone(); // a repeat instead of another element: same length, smaller set
            variants.push(v);
            let mut v = perm.clone();
            v.push(vec![9999, 1]); // one more element
            variants.push(v);
            let mut v = perm.clone();
            v[n / 2] = vec![7777]; // one element replaced by a new one
            variants.push(v);
            let mut v = perm.clone();
            v.truncate(n - 1);
            v.push(a[0].clone()); // drops one element, repeats another (same length unless it was a[0])
            variants.push(v);
        }
        for (i, x) in variants.iter().enumerate() {
            for y in variants.iter().skip(i) {
                for swap in [false, true] {
                    if !e.mine() {
                        continue;
                    }
                    let mut ops = vec![PUSH(5)];
                    let (l, rr) = if swap { (y, x) } else { (x, y) };
                    push_set(&mut ops, l);
                    push_set(&mut ops, rr);
                    ops.extend([EQST, PUSH(6)]);
                    e.run(&single(&ops, &base), JudgeOpts { mapped: false, lockstep: true, eval: false }, "matrix");
                }
            }
        }
    }
}

fn control_matrix(e: &mut Eng, thorough: bool) {
    let ev = e.args.prop == "C09";
    let mut r = Rng::new(e.args.seed ^ 0x99);
    let base = vmgen::base_case(&mut r);
    // jumps: every distance around the program, every condition
    for before in [0usize, 1, 3, 6] {
        for after in [0usize, 1, 4] {
            let len = (before + 3 + after) as i64;
            let mut dists: Vec<i64> = (-len - 2..=len + 2).collect();
            dists.extend([i64::MIN, i64::MIN + 1, i64::MAX, i64::MAX - 1, 1 << 40, -(1 << 40)]);
            for d in dists {
                for c in [-1i64, 0, 1, 2] {
                    if !e.mine() {
                        continue;
                    }
                    let mut ops = vec![PUSH(7); before];
                    ops.extend([PUSH(d), PUSH(c), JMPIF]);
                    ops.extend(vec![PUSH(9); after]);
                    // backward jumps re-execute the jump itself with whatever is on the stack:
                    // bounded by the step cap of the model (=> unspecified) or by stack overflow.
                    let mut case = single(&ops, &base);
                    case.limit = 300;
                    e.run(&case, JudgeOpts { mapped: true, lockstep: true, eval: ev }, "control-matrix");
                }
            }
        }
    }
    // repeats: counts × directions, single and nested, counters observed through REPC
    let counts = [i64::MIN, -1, 0, 1, 2, 3, 17, if thorough { 4096 } else { 200 }];
    for &n in &counts {
        for dir in [-1i64, 0, 1, 2] {
            if e.mine() {
                let ops = vec![PUSH(n), PUSH(dir), REP, REPC, REPE, PUSH(42)];
                e.run(&single(&ops, &base), JudgeOpts { mapped: true, lockstep: true, eval: ev }, "control-matrix");
            }
            for &n2 in &[0i64, 1, 2, 3] {
                for dir2 in [0i64, 1] {
                    if !e.mine() {
                        continue;
                    }
                    let ops = vec![PUSH(n.clamp(-1, 5)), PUSH(dir), REP, REPC, PUSH(n2), PUSH(dir2), REP, REPC, POP, REPE, POP, REPC, POP, REPE, REPC];
                    e.run(&single(&ops, &base), JudgeOpts { mapped: true, lockstep: true, eval: ev }, "control-matrix");
                }
            }
        }
    }
    // nesting up to and beyond the repeat-stack limit
    for depth in [1usize, 5, 4095, 4096, 4097] {
        if !e.mine() {
            continue;
        }
        let mut ops = vec![];
        for _ in 0..depth {
            ops.extend([PUSH(1), PUSH(1), REP]);
        }
        ops.push(REPC);
        for _ in 0..depth.min(4096) {
            ops.push(REPE);
        }
        ops.push(REPE); // one too many when depth <= 4096
        e.run(&single(&ops, &base), JudgeOpts { mapped: false, lockstep: true, eval: ev }, "control-matrix");
    }
    // halting inside active loops (single and nested, at every counter value): the run ends there, pc stays on the
    // halting op and the loops stay active
    for n in [1i64, 2, 3] {
        for dir in [0i64, 1] {
            for k in [0i64, 1, 2, 3] {
                if e.mine() {
                    let ops = vec![PUSH(n), PUSH(dir), REP, REPC, PUSH(k), EQ, HLTIF, REPE, PUSH(42)];
                    e.run(&single(&ops, &base), JudgeOpts { mapped: true, lockstep: true, eval: ev }, "control-matrix");
                }
                if e.mine() {
                    let ops = vec![PUSH(2), PUSH(1), REP, PUSH(n), PUSH(dir), REP, REPC, PUSH(k), EQ, HLTIF, REPE, REPC, POP, REPE, PUSH(1)];
                    e.run(&single(&ops, &base), JudgeOpts { mapped: true, lockstep: true, eval: ev }, "control-matrix");
                }
            }
            if e.mine() {
                let ops = vec![PUSH(n), PUSH(dir), REP, PUSH(5), HLT, REPE, PUSH(1)];
                e.run(&single(&ops, &base), JudgeOpts { mapped: true, lockstep: true, eval: ev }, "control-matrix");
            }
        }
    }
    // halts and panics everywhere
    for c in [-1i64, 0, 1, 2] {
        for op in [HLTIF, PNCIF] {
            if !e.mine() {
                continue;
            }
            let ops = vec![PUSH(5), PUSH(c), op, PUSH(6)];
            e.run(&single(&ops, &base), JudgeOpts { mapped: true, lockstep: true, eval: ev }, "control-matrix");
        }
    }
    // eval: every interesting last word, with other words below it
    for top in [-1i64, 0, 1, 2, i64::MAX, i64::MIN] {
        for below in [vec![], vec![0], vec![1], vec![1, 0], vec![0, 1], vec![2, 2]] {
            if e.mine() {
                let mut ops: Vec<Op> = below.iter().map(|w| PUSH(*w)).collect();
                ops.push(PUSH(top));
                e.run(&single(&ops, &base), JudgeOpts { mapped: false, lockstep: true, eval: ev }, "control-matrix");
            }
        }
    }
    for ops in [vec![REPE], vec![REPC], vec![HLT, PUSH(1)], vec![PUSH(1), HLT], vec![]] {
        if e.mine() {
            e.run(&single(&ops, &base), JudgeOpts { mapped: true, lockstep: true, eval: ev }, "control-matrix");
        }
    }
    // every entry position of a small program, including at and beyond its end (list and mapped form)
    let prog = vec![PUSH(1), PUSH(2), ADD, HLT, PUSH(7), PUSH(3), PUSH(1), JMPIF, PUSH(8), PUSH(9)];
    for pc in 0..prog.len() + 4 {
        for mapped in [false, true] {
            if e.mine() {
                let mut c = single(&prog, &base);
                c.pc = pc;
                c.stack = vec![5, 6];
                e.run(&c, JudgeOpts { mapped, lockstep: true, eval: false }, "control-matrix");
            }
        }
    }
}

fn read_matrix(e: &mut Eng, thorough: bool) {
    let mut r = Rng::new(e.args.seed ^ 0xab);
    let base = vmgen::base_case(&mut r);
    let scripts: Vec<Script> = vec![
        Script::Range,
        Script::Fixed(vec![]),
        Script::Fixed(vec![vec![]]),
        Script::Fixed(vec![vec![], vec![5], vec![]]),
        Script::Fixed(vec![vec![1, 2, 3], vec![4], vec![5, 6]]),
        Script::Fixed((0..7).map(|i| vec![i; (i % 3) as usize]).collect()),
        Script::Fixed(vec![vec![9; 40]]),
        Script::Fail("boom".into()),
    ];
    let mems: &[usize] = if thorough { &[0, 1, 6, 12, 40, 10240] } else { &[0, 6, 12, 40] };
    let klens: &[usize] = if thorough { &[0, 1, 2, 3, 8] } else { &[0, 1, 3] };
    for (oi, op) in [KRNG, KREX, PKRNG, PKREX].into_iter().enumerate() {
        for &klen in klens {
            for count in [-1i64, 0, 1, 2, 7, i64::MAX] {
                for &ml in mems {
                    for addr in [-1i64, 0, 1, ml as i64 / 2, ml as i64 - 1, ml as i64, ml as i64 + 1, i64::MAX] {
                        for (si, sc) in scripts.iter().enumerate() {
                            if !e.mine() {
                                continue;
                            }
                            if !thorough && (si + klen + ml + oi) % 3 != 0 {
                                continue;
                            }
                            let mut c = base.clone();
                            c.memory = (0..ml as i64).map(|i| 500 + i).collect();
                            c.stack = vec![71, 72];
                            // differently scripted views: the post view answers shifted values
                            c.pre.script = sc.clone();
                            c.post.script = match sc {
                                Script::Fixed(v) => Script::Fixed(v.iter().map(|x| x.iter().map(|w| w + 1000).collect()).collect()),
                                s => s.clone(),
                            };
                            let mut ops = vec![];
                            if oi % 2 == 1 {
                                let ca = if (klen + si) % 2 == 0 { vmgen::contract_a() } else { vmgen::contract_b() };
                                ops.extend(crate::model::word_4_from_u8_32(ca.0).map(PUSH));
                            }
                            for j in 0..klen {
                                ops.push(PUSH(if j + 1 == klen && count == 7 { i64::MAX - 2 } else { j as i64 % 5 }));
                            }
                            ops.extend([PUSH(klen as i64), PUSH(count), PUSH(addr), op, PUSH(1)]);
                            c.set_ops(&ops);
                            e.run(&c, JudgeOpts { mapped: false, lockstep: true, eval: false }, "read-matrix");
                        }
                    }
                }
            }
        }
    }
}

/// State reads of many keys: counts around the places where a batched read could switch, memory that fits exactly /
/// is one word short, every op, pre and post views answering differently, values of mixed lengths.
fn read_matrix_big(e: &mut Eng) {
    let mut r = Rng::new(e.args.seed ^ 0xb16);
    let base = vmgen::base_case(&mut r);
    for (oi, op) in [KRNG, KREX, PKRNG, PKREX].into_iter().enumerate() {
        for count in [63i64, 64, 65, 255, 256, 257, 513, 1000, 1024, 2047, 2048] {
            for short in [0i64, 1] {
                for dense in [false, true] {
                    if !e.mine() {
                        continue;
                    }
                    let mut c = base.clone();
                    // dense: every key of the range holds a one-word value; otherwise only the keys of the default views
                    if dense {
                        let ca = if oi % 2 == 1 { vmgen::contract_b() } else { c.solutions[c.index].predicate_to_solve.contract.clone() };
                        for k in 0..count {
                            c.pre.entries.push((ca.clone(), vec![k], vec![7000 + k]));
                            c.post.entries.push((ca.clone(), vec![k], vec![9000 + k]));
                        }
                    }
                    let values = if dense { count } else { 16 };
                    let need = 2 * count + values - short;
                    let mut ops = vec![PUSH(need.max(0)), ALOC, POP];
                    if oi % 2 == 1 {
                        ops.extend(crate::model::word_4_from_u8_32(vmgen::contract_b().0).map(PUSH));
                    }
                    ops.extend([PUSH(0), PUSH(1), PUSH(count), PUSH(0), op, PUSH(1)]);
                    c.stack = vec![71, 72];
                    c.set_ops(&ops);
                    e.run(&c, JudgeOpts { mapped: false, lockstep: true, eval: false }, "read-matrix");
                }
            }
        }
    }
}

fn access_matrix(e: &mut Eng, thorough: bool) {
    let mut r = Rng::new(e.args.seed ^ 0xcd);
    // several solutions, every index
    for trial in 0..(if thorough { 12 } else { 3 }) {
        let mut base = vmgen::base_case(&mut r);
        while base.solutions.len() < 3 {
            let (s, _) = vmgen::default_solutions(&mut r);
            base.solutions.extend(s);
        }
        let _ = trial;
        for index in 0..base.solutions.len() {
            base.index = index;
            let nslots = base.solutions[index].predicate_data.len() as i64;
            for slot in -1..=nslots {
                for ix in [-1i64, 0, 1, 2, 7, 8, 9, i64::MAX] {
                    for len in [-1i64, 0, 1, 2, 3, 8, 9, i64::MAX] {
                        if !e.mine() {
                            continue;
                        }
                        let ops = vec![PUSH(3), PUSH(slot), PUSH(ix), PUSH(len), DATA, PUSH(slot), DLEN, DSLT];
                        e.run(&single(&ops, &base), JudgeOpts { mapped: false, lockstep: true, eval: false }, "access-matrix");
                    }
                }
            }
            if e.mine() {
                let hashes: Vec<[u8; 32]> = model::predicate_exists_hashes(&base.solutions).into_iter().collect();
                let mut ops = vec![THIS, THISC];
                for h in &hashes {
                    ops.extend(crate::model::word_4_from_u8_32(*h).map(PUSH));
                    ops.push(PEX);
                    let mut h2 = *h;
                    h2[r.below(32)] ^= 1 << r.below(8);
                    ops.extend(crate::model::word_4_from_u8_32(h2).map(PUSH));
                    ops.push(PEX);
                }
                // also from within compute children (shared OnceLock)
                ops.extend([PUSH(8), COM]);
                ops.extend(crate::model::word_4_from_u8_32(hashes[0]).map(PUSH));
                ops.extend([PEX, PUSH(1), ALOC, STO, COME]);
                e.run(&single(&ops, &base), JudgeOpts { mapped: true, lockstep: true, eval: false }, "access-matrix");
            }
        }
    }
    // a set with 100 solutions (several per predicate address): every solution's pre-image must be found, from
    // the first, a middle and the last index, also from within compute children
    if e.mine() {
        let mut base = vmgen::base_case(&mut r);
        while base.solutions.len() < 100 {
            let (s, _) = vmgen::default_solutions(&mut r);
            base.solutions.extend(s);
        }
        base.solutions.truncate(100);
        let hashes: Vec<[u8; 32]> = model::predicate_exists_hashes(&base.solutions).into_iter().collect();
        for index in [0usize, 57, 99] {
            base.index = index;
            let mut ops = vec![THIS, THISC, DSLT, POP];
            for h in hashes.iter().step_by(7) {
                ops.extend(crate::model::word_4_from_u8_32(*h).map(PUSH));
                ops.extend([PEX, POP]);
            }
            ops.extend([PUSH(70), COM]);
            ops.extend(crate::model::word_4_from_u8_32(hashes[hashes.len() - 1]).map(PUSH));
            ops.extend([PEX, PUSH(1), ALOC, STO, COME]);
            e.run(&single(&ops, &base), JudgeOpts { mapped: false, lockstep: true, eval: false }, "access-matrix");
        }
    }
    // predicate data slots around 1024 / 8192 words and at the limit of 10000: the pre-image of PredicateExists
    // covers the whole slot, PredicateData / PredicateDataLen address it to its last word
    for lens in [vec![1023usize, 1024], vec![1025, 0, 3], vec![8191, 8192], vec![8193], vec![10_000, 1], vec![4096, 4097]] {
        if !e.mine() {
            continue;
        }
        let mut base = vmgen::base_case(&mut r);
        base.solutions.truncate(2);
        base.index = 0;
        base.solutions[0].predicate_data = lens.iter().map(|l| (0..*l as i64).map(|j| j * 3 + 1).collect()).collect();
        let hashes: Vec<[u8; 32]> = model::predicate_exists_hashes(&base.solutions).into_iter().collect();
        let mut ops = vec![];
        for h in &hashes {
            ops.extend(crate::model::word_4_from_u8_32(*h).map(PUSH));
            ops.extend([PEX, POP]);
        }
        for (si, l) in lens.iter().enumerate() {
            let l = *l as i64;
            ops.extend([PUSH(si as i64), DLEN, POP]);
            // the last word, one past it, and a long range ending exactly at the end
            ops.extend([PUSH(si as i64), PUSH((l - 1).max(0)), PUSH(i64::from(l > 0)), DATA]);
            ops.extend([PUSH(si as i64), PUSH((l - 2000).max(0)), PUSH(l.min(2000)), DATA, PUSH(0), RES, DROP]);
        }
        ops.extend([PUSH(0), PUSH(lens[0] as i64), PUSH(1), DATA]);
        e.run(&single(&ops, &base), JudgeOpts { mapped: false, lockstep: true, eval: false }, "access-matrix");
    }
    // Sha256 for every byte length
    let base = vmgen::base_case(&mut r);
    let maxlen = if thorough { 200 } else { 80 };
    // every small length, and windows around the places where a block-wise implementation switches:
    // multiples of 64 bytes (SHA block), of 512 bytes (64 words), and the largest message the stack can hold
    let mut lens: Vec<usize> = (0..=maxlen).collect();
    for centre in [128usize, 192, 256, 512, 1024, 1536, 2048, 4096, 8192, 16384, 32256, 32760] {
        lens.extend(centre - 9..=centre + 9);
    }
    lens.retain(|l| *l <= 4094 * 8);
    for len in lens {
        if !e.mine() {
            continue;
        }
        let words: usize = (len + 7) / 8;
        let mut ops: Vec<Op> = (0..words).map(|_| PUSH(r.word())).collect();
        ops.extend([PUSH(len as i64), SHA2]);
        e.run(&single(&ops, &base), JudgeOpts { mapped: false, lockstep: true, eval: false }, "access-matrix");
        // one word too few / negative / huge length
        let mut ops: Vec<Op> = (0..words.saturating_sub(1)).map(|_| PUSH(r.word())).collect();
        ops.extend([PUSH(len as i64), SHA2]);
        e.run(&single(&ops, &base), JudgeOpts { mapped: false, lockstep: true, eval: false }, "access-matrix");
    }
    // too few operands for every access / crypto op
    for op in [PEX, DATA, DLEN, SHA2, VRFYED, RSECP, THIS, THISC, DSLT] {
        for n in [0usize, 1, 3] {
            if e.mine() {
                let mut ops: Vec<Op> = (0..n).map(|i| PUSH(i as i64)).collect();
                ops.push(op);
                e.run(&single(&ops, &base), JudgeOpts { mapped: false, lockstep: true, eval: false }, "access-matrix");
                // and with a full stack (pushes must fail)
                let mut c = single(&[op], &base);
                c.stack = vec![0; 4096 - n];
                e.run(&c, JudgeOpts { mapped: false, lockstep: true, eval: false }, "access-matrix");
            }
        }
    }
    for l in [-1i64, i64::MAX, i64::MIN, 1 << 40] {
        if e.mine() {
            e.run(&single(&[PUSH(1), PUSH(l), SHA2], &base), JudgeOpts { mapped: false, lockstep: true, eval: false }, "access-matrix");
        }
    }
}

/// Compute joins at the memory limit: parent memory x breadth x children's combined allocation placed just
/// below / at / above the limit (for the children alone and for parent + children), children of different
/// lengths, every way of ending a child (ComputeEnd, Halt, end of program), parent stacks at the limit.
fn compute_matrix(e: &mut Eng, pools: &[usize]) {
    let mut r = Rng::new(e.args.seed ^ 0xc0de);
    let base = vmgen::base_case(&mut r);
    const LIMIT: i64 = 10240;
    for parent_mem in [0i64, 1, 7, 5000, LIMIT - 1, LIMIT] {
        for breadth in [1i64, 2, 3, 4, 16] {
            let room = LIMIT - parent_mem;
            let mut totals = vec![0i64, 1, breadth, room - 1, room, room + 1, LIMIT - 1, LIMIT, LIMIT + 1];
            totals.retain(|t| *t >= 0);
            totals.sort();
            totals.dedup();
            for total in totals {
                for ending in 0..3 {
                    for stack_len in [2usize, 4092, 4094] {
                        if !e.mine() {
                            continue;
                        }
                        let (q, rem) = (total / breadth, total % breadth);
                        // child i allocates q + (i < rem) words and stores its index in the last one
                        let mut ops = vec![PUSH(breadth), COM, DUP, PUSH(rem), LT, PUSH(q), ADD, ALOC, POP];
                        match ending {
                            0 => ops.extend([COME, PUSH(1), POP]),
                            1 => ops.extend([HLT, PUSH(1)]),
                            _ => {}
                        }
                        let mut c = single(&ops, &base);
                        c.memory = (0..parent_mem).map(|i| 900 + i % 7).collect();
                        // 4092: the children's deepest stack is exactly at the limit; 4094: they overflow it
                        c.stack = (0..stack_len as i64).map(|i| 40 + i % 5).collect();
                        for (pi, &p) in pools.iter().enumerate() {
                            c.pool = p;
                            c.delay_seed = if pi == 0 { 0 } else { r.next_u64() | 1 };
                            e.run(&c, JudgeOpts { mapped: pi == 0, lockstep: true, eval: false }, "compute-matrix");
                        }
                    }
                }
            }
        }
    }
}

/// Total gas of the case with an unlimited budget (exact), or None if it fails / is unspecified.
fn exact_total(case: &VmCase) -> Option<u128> {
    let ops = case.ops();
    let (views, _) = crate::state::Views::new(&case.pre, &case.post);
    let mut env = Env::new(&ops, &case.solutions, case.index, &views, &case.cost, u64::MAX);
    let mut m = vmcase::build_machine(case);
    let depth = usize::from(case.parent_memory.is_some());
    match model::run(&mut m, &mut env, depth) {
        Ok(()) => Some(env.gas),
        Err(_) => None,
    }
}

fn random_cases(e: &mut Eng, focus: Focus, n: u64, opts: JudgeOpts, pools: &[usize], kind: &str) {
    let mut r = Rng::new(crate::rng::mix(e.args.seed.wrapping_mul(1_000_003).wrapping_add(e.args.shard as u64), focus as u64 + 17));
    for i in 0..n {
        let mut case = if focus == Focus::Gas && i % 3 == 0 { vmgen::gas_probe(&mut r) } else { vmgen::random_case(&mut r, focus) };
        let probe = focus == Focus::Gas && i % 3 == 0;
        if probe {
            // keep the probe's cost table; place the limit relative to the exact total (or leave u64::MAX)
            let total = exact_total(&case);
            case.limit = match (r.below(6), total) {
                (0, Some(t)) if t <= u64::MAX as u128 => t as u64,
                (1, Some(t)) if (1..=u64::MAX as u128).contains(&t) => t as u64 - 1,
                (2, Some(t)) if t < u64::MAX as u128 => t as u64 + 1,
                (3, Some(t)) if t >= 4 && t <= u64::MAX as u128 => t as u64 - 1 - r.below(3) as u64,
                _ => u64::MAX,
            };
        } else if focus == Focus::Gas || (focus == Focus::Compute && i % 5 == 4) {
            // first fix the cost function, then place the limit relative to the exact total
            vmgen::gas_setup(&mut r, &mut case, None);
            let limit = case.limit;
            case.limit = u64::MAX;
            let total = exact_total(&case);
            case.limit = limit;
            let cost = case.cost.clone();
            vmgen::gas_setup(&mut r, &mut case, total);
            case.cost = cost;
        }
        if !pools.is_empty() {
            // same case under every pool size and several delay seeds
            for (pi, &p) in pools.iter().enumerate() {
                case.pool = p;
                case.delay_seed = if pi == 0 { 0 } else { r.next_u64() | 1 };
                e.run(&case, opts, kind);
            }
        } else {
            e.run(&case, opts, kind);
        }
        let _ = i;
    }
}

/// Random byte strings executed as bytecode: totality fodder (mostly fails to map).
fn byte_programs(e: &mut Eng, n: u64) {
    let mut r = Rng::new(e.args.seed.wrapping_mul(31).wrapping_add(e.args.shard as u64) ^ 0xb17e);
    let valid: Vec<u8> = (0u8..=255).filter(|b| matches!(asm::from_bytes([*b]).next(), Some(Ok(_)))).collect();
    let mut mapped_ok = 0u64;
    for _ in 0..n {
        let len = r.below(40);
        let bytes: Vec<u8> = (0..len)
            .map(|_| if r.chance(0.9) { *r.pick(&valid) } else { r.below(256) as u8 })
            .collect();
        crate::wal(&|| json!({"engine": "vm-bytes", "bytes": hex::encode(&bytes)}));
        let res = vmcase::catch(|| essential_vm::BytecodeMapped::try_from(bytes.clone()));
        e.rep.evaluations += 1;
        match res {
            Err(p) => e.rep.violation("C05", "panic", format!("BytecodeMapped::try_from panicked: {p}"), json!({"engine": "vm-bytes", "bytes": hex::encode(&bytes)})),
            Ok(Err(_)) => e.rep.count("bytes.rejected"),
            Ok(Ok(bm)) => {
                mapped_ok += 1;
                let ops: Vec<Op> = bm.ops().collect();
                let mut case = vmgen::base_case(&mut r);
                case.stack = vec![1, 2, 3, 4];
                case.memory = vec![0; 8];
                case.limit = 2_000;
                case.set_ops(&ops);
                e.run(&case, JudgeOpts { mapped: true, lockstep: true, eval: false }, "byte-program");
            }
        }
    }
    e.rep.add("bytes.mapped_ok", mapped_ok);
}

pub fn op_names() -> Vec<(u8, String)> {
    (0u8..=255)
        .filter_map(|b| asm::Opcode::try_from(b).ok().map(|o| (b, format!("{o:?}"))))
        .collect()
}

pub fn run(args: &Args, rep: &mut Report) {
    let mon = Monitor::new();
    mon.install();
    vmcase::install_panic_hook();
    let thorough = args.tier == "thorough";
    let scale = |quick: u64, thor: u64| -> u64 {
        let n = if thorough { thor } else { quick };
        ((n as f64 * args.scale) as u64 / args.nshards as u64).max(1)
    };
    let mut e = Eng {
        rep,
        mon: mon.clone(),
        pools: Pools::new(),
        args,
        n: 0,
    };
    let ls = JudgeOpts { mapped: false, lockstep: true, eval: args.prop == "C09" };
    let lsm = JudgeOpts { mapped: true, lockstep: true, eval: false };
    match args.prop.as_str() {
        "C05" => {
            exhaustive_short(&mut e, 2, if thorough { &[0, 1, 2, 3, 4, 5, 6, 7, 8, 9, 10, 11] } else { &[0, 1, 5, 7, 8, 11] });
            if thorough {
                exhaustive_short(&mut e, 3, &[1, 7]);
            }
            operand_matrix(&mut e, thorough);
            // boundary operands of the ops the pair matrix cannot set up: state reads (addresses, counts and
            // result shapes at the limits) and control flow (jump distances, repeat counts, nesting at the limit)
            read_matrix(&mut e, thorough);
            control_matrix(&mut e, thorough);
            access_matrix(&mut e, thorough);
            eqset_matrix(&mut e);
            random_cases(&mut e, Focus::General, scale(40_000, 1_500_000), ls, &[], "random");
            random_cases(&mut e, Focus::StateRead, scale(6_000, 200_000), ls, &[], "random-reads");
            random_cases(&mut e, Focus::Compute, scale(6_000, 200_000), ls, &[], "random-compute");
            random_cases(&mut e, Focus::Access, scale(2_000, 60_000), ls, &[], "random-access");
            byte_programs(&mut e, scale(20_000, 600_000));
        }
        "C08" => {
            operand_matrix(&mut e, thorough);
            eqset_matrix(&mut e);
            random_cases(&mut e, Focus::General, scale(40_000, 2_000_000), ls, &[], "random");
            if thorough {
                exhaustive_short(&mut e, 2, &[1, 3, 6, 7]);
            }
        }
        "C09" => {
            control_matrix(&mut e, thorough);
            random_cases(&mut e, Focus::Control, scale(40_000, 1_500_000), ls, &[], "random-control");
        }
        "C10" if args.regime == "miri" => {
            vmgen::TINY.store(true, Ordering::Relaxed);
            // the interpreter is ~10^4 times slower: two small cases per shard
            random_cases(&mut e, Focus::Compute, 2, ls, &[1, 3], "random-compute");
        }
        "C10" => {
            let pools: &[usize] = if thorough { &[1, 2, 5, 16] } else { &[1, 3, 8] };
            compute_matrix(&mut e, if thorough { &[1, 4, 16] } else { &[1, 4] });
            random_cases(&mut e, Focus::Compute, scale(8_000, 100_000), ls, pools, "random-compute");
        }
        "C11" => {
            read_matrix(&mut e, thorough);
            read_matrix_big(&mut e);
            random_cases(&mut e, Focus::StateRead, scale(30_000, 1_000_000), ls, &[], "random-reads");
        }
        "C07" => {
            random_cases(&mut e, Focus::Gas, scale(30_000, 2_000_000), ls, &[], "random-gas");
        }
        "C12" => {
            access_matrix(&mut e, thorough);
            random_cases(&mut e, Focus::Access, scale(6_000, 200_000), ls, &[], "random-access");
        }
        "C14" => {
            random_cases(&mut e, Focus::General, scale(15_000, 600_000), lsm, &[], "random");
            random_cases(&mut e, Focus::Control, scale(8_000, 300_000), lsm, &[], "random-control");
            random_cases(&mut e, Focus::Compute, scale(4_000, 150_000), lsm, &[], "random-compute");
            control_matrix(&mut e, false);
        }
        other => e.rep.inconclusive.push(format!("vm engine has no workload for {other}")),
    }
    // what the hook saw
    for (b, name) in op_names() {
        let ok = mon.ok[b as usize].load(Ordering::Relaxed);
        let failed = mon.failed[b as usize].load(Ordering::Relaxed);
        e.rep.add(&format!("op_ok.{name}"), ok);
        e.rep.add(&format!("op_failed.{name}"), failed);
    }
    e.rep.max("max_stack_seen", mon.max_stack.load(Ordering::Relaxed));
    e.rep.max("max_memory_seen", mon.max_memory.load(Ordering::Relaxed));
    e.rep.max("max_repeat_depth_seen", mon.max_repeat.load(Ordering::Relaxed));
    e.rep.max("max_compute_depth_seen", mon.max_depth.load(Ordering::Relaxed));
    e.rep.add("ops_observed_in_compute_children", mon.child_ops.load(Ordering::Relaxed));
    e.rep.set("build_regime", args.regime.clone());
    let _ = (CostFn::Const(0), ViewSpec::default());
}

/// Replay one recorded VM case with every oracle on.
pub fn replay(case: &VmCase, rep: &mut Report) {
    let mon = Monitor::new();
    mon.install();
    vmcase::install_panic_hook();
    let mut pools = Pools::new();
    judge(case, rep, &mon, &mut pools, JudgeOpts { mapped: true, lockstep: true, eval: true });
}
