use vh::{report::Report, Args};

fn usage() -> ! {
    eprintln!("usage: vh <engine> --prop ID --tier quick|thorough --seed N --shard I --nshards N --out FILE [--scale F] [--regime L] [--wal FILE]\n       vh replay FILE\n       vh count-hashes FILE...");
    std::process::exit(2)
}

fn main() {
    let argv: Vec<String> = std::env::args().skip(1).collect();
    if argv.is_empty() {
        usage();
    }
    if argv[0] == "count-hashes" {
        println!("{}", vh::report::count_distinct_hashes(&argv[1..]));
        return;
    }
    if argv[0] == "dump-opcode-table" {
        print!("{}", vh::codec::table_tsv(&vh::codec::read_spec(essential_asm_spec::ASM_YAML).expect("asm.yml")));
        return;
    }
    if argv[0] == "d11" {
        // Canonical witness of known finding D11 (run by the driver under an address-space cap).
        use essential_vm::{asm::short::*, Access, GasLimit, Op, Vm};
        let breadth: i64 = argv.get(2).and_then(|s| s.parse().ok()).unwrap_or(60_000_000);
        let mut r = vh::rng::Rng::new(1);
        let case = vh::vmgen::base_case(&mut r);
        let (views, _) = vh::state::Views::new(&case.pre, &case.post);
        let mut vm = Vm::default();
        let res = vm.exec_ops(
            &[PUSH(breadth), COM],
            Access::new(std::sync::Arc::new(case.solutions.clone()), 0),
            &views,
            &|_: &Op| 1,
            GasLimit { per_yield: 4096, total: 10 },
        );
        println!("d11 witness returned {res:?}");
        return;
    }
    if argv[0] == "explain" {
        let text = std::fs::read_to_string(&argv[1]).expect("file");
        let v: serde_json::Value = serde_json::from_str(&text).expect("json");
        vh::scenengine::explain(&v["case"]);
        return;
    }
    if argv[0] == "replay" {
        let text = std::fs::read_to_string(&argv[1]).expect("replay file");
        let v: serde_json::Value = serde_json::from_str(&text).expect("replay json");
        let mut rep = Report::new("replay", 0, 0);
        let case = v.get("case").cloned().unwrap_or(v.clone());
        let case = case.get("case").cloned().unwrap_or(case);
        let engine = v.get("case").and_then(|c| c.get("engine")).or(v.get("engine")).and_then(|e| e.as_str()).unwrap_or("vm").to_string();
        match engine.as_str() {
            "vm" => {
                let c: vh::vmcase::VmCase = serde_json::from_value(case).expect("vm case");
                vh::vmengine::replay(&c, &mut rep);
            }
            "scen" => vh::scenengine::replay(&case, &mut rep),
            "total" => vh::total::replay(&case, &mut rep),
            "codec" => vh::codec::replay(case.get("bytes").and_then(|b| b.as_str()).unwrap_or(""), &mut rep),
            "vm-bytes" => vh::codec::replay(case.get("bytes").and_then(|b| b.as_str()).unwrap_or(""), &mut rep),
            "formats" => vh::formats::replay(&case, &mut rep),
            "sign" => vh::signeng::replay(&case, &mut rep),
            "limits" => vh::limits::replay(&case, &mut rep),
            other => {
                eprintln!("no replay for engine {other}");
                std::process::exit(2);
            }
        }
        for v in &rep.violations {
            println!("REPLAY-VIOLATION property={} kind={} {}", v.property, v.kind, v.detail);
        }
        for r in &rep.inconclusive {
            println!("REPLAY-INCONCLUSIVE {r}");
        }
        println!("replay: {} violation(s)", rep.violations.len());
        std::process::exit(if !rep.violations.is_empty() { 1 } else if !rep.inconclusive.is_empty() { 2 } else { 0 });
    }
    let mut a = Args {
        engine: argv[0].clone(),
        prop: String::new(),
        tier: "quick".into(),
        seed: 1,
        shard: 0,
        nshards: 1,
        out: String::new(),
        scale: 1.0,
        regime: "unknown".into(),
        extra: vec![],
    };
    let mut i = 1;
    while i < argv.len() {
        let v = argv.get(i + 1).cloned().unwrap_or_default();
        match argv[i].as_str() {
            "--prop" => a.prop = v,
            "--tier" => a.tier = v,
            "--seed" => a.seed = v.parse().unwrap_or(1),
            "--shard" => a.shard = v.parse().unwrap_or(0),
            "--nshards" => a.nshards = v.parse().unwrap_or(1),
            "--out" => a.out = v,
            "--scale" => a.scale = v.parse().unwrap_or(1.0),
            "--regime" => a.regime = v,
            "--wal" => vh::wal_open(&v),
            x => {
                a.extra.push(x.to_string());
                i += 1;
                continue;
            }
        }
        i += 2;
    }
    let t0 = std::time::Instant::now();
    let mut rep = Report::new(&a.engine, a.seed, a.shard);
    match a.engine.as_str() {
        "vm" => vh::vmengine::run(&a, &mut rep),
        "codec" => vh::codec::run(&a, &mut rep),
        "formats" => vh::formats::run(&a, &mut rep),
        "scen" => vh::scenengine::run(&a, &mut rep),
        "total" => vh::total::run(&a, &mut rep),
        "limits" => vh::limits::run(&a, &mut rep),
        "sign" => vh::signeng::run(&a, &mut rep),
        _ => usage(),
    }
    rep.finish(t0);
    if a.out.is_empty() {
        println!("{}", serde_json::to_string_pretty(&rep).unwrap());
    } else {
        rep.write(&a.out).expect("write report");
    }
}
