//! Format engine: content addresses (C17) and wire / text / serde codecs (C18).

use crate::{report::Report, rng::Rng, vmcase::catch, Args};
use essential_hash::{content_addr, contract_addr, solution_set_addr, Address};
use essential_types::{
    contract::{Contract, SignedContract},
    convert,
    predicate::{Edge, Node, Predicate, Program},
    solution::{decode, encode, Mutation, Solution, SolutionSet},
    ContentAddress, PredicateAddress, Signature, Word,
};
use serde_json::json;
use sha2::Digest;
use std::collections::HashMap;

pub fn sha(bytes: &[u8]) -> [u8; 32] {
    sha2::Sha256::digest(bytes).into()
}

/// Documented binary encoding of a predicate, written by the harness.
pub fn own_predicate_bytes(p: &Predicate) -> Vec<u8> {
    let mut b = vec![];
    b.extend((p.nodes.len() as u16).to_be_bytes());
    for n in &p.nodes {
        b.extend(n.edge_start.to_be_bytes());
        b.extend(n.program_address.0);
    }
    b.extend((p.edges.len() as u16).to_be_bytes());
    for e in &p.edges {
        b.extend(e.to_be_bytes());
    }
    b
}

fn varint(mut v: u64, out: &mut Vec<u8>) {
    loop {
        let b = (v & 0x7f) as u8;
        v >>= 7;
        if v == 0 {
            out.push(b);
            break;
        }
        out.push(b | 0x80);
    }
}

fn zigzag(w: i64, out: &mut Vec<u8>) {
    varint(((w << 1) ^ (w >> 63)) as u64, out)
}

fn words(ws: &[Word], out: &mut Vec<u8>) {
    varint(ws.len() as u64, out);
    for w in ws {
        zigzag(*w, out);
    }
}

/// Minimal postcard writer for `Solution` (LEB128 lengths, zig-zag i64, byte strings length-prefixed).
pub fn own_postcard_solution(s: &Solution) -> Vec<u8> {
    let mut b = vec![];
    for a in [&s.predicate_to_solve.contract, &s.predicate_to_solve.predicate] {
        varint(32, &mut b);
        b.extend(a.0);
    }
    varint(s.predicate_data.len() as u64, &mut b);
    for slot in &s.predicate_data {
        words(slot, &mut b);
    }
    varint(s.state_mutations.len() as u64, &mut b);
    for m in &s.state_mutations {
        words(&m.key, &mut b);
        words(&m.value, &mut b);
    }
    b
}

pub fn own_contract_addr(c: &Contract) -> [u8; 32] {
    let mut addrs: Vec<[u8; 32]> = c.predicates.iter().map(|p| sha(&own_predicate_bytes(p))).collect();
    addrs.sort();
    let mut pre = vec![];
    for a in addrs {
        pre.extend(a);
    }
    pre.extend(c.salt);
    sha(&pre)
}

pub fn own_set_addr(s: &SolutionSet) -> [u8; 32] {
    let mut addrs: Vec<[u8; 32]> = s.solutions.iter().map(|x| sha(&own_postcard_solution(x))).collect();
    addrs.sort();
    sha(&addrs.concat())
}

/// Documented edge slice of a node.
pub fn own_node_edges(p: &Predicate, i: usize) -> Option<Vec<Edge>> {
    let n = p.nodes.get(i)?;
    if n.edge_start == Edge::MAX {
        return Some(vec![]);
    }
    let start = n.edge_start as usize;
    let end = match p.nodes.get(i + 1) {
        Some(next) if next.edge_start != Edge::MAX => next.edge_start as usize,
        _ => p.edges.len(),
    };
    if start > end || end > p.edges.len() {
        return None;
    }
    Some(p.edges[start..end].to_vec())
}

// ---------------------------------------------------------------------------------------
// Generators

pub fn gen_addr(r: &mut Rng) -> ContentAddress {
    match r.below(8) {
        0 => ContentAddress([0; 32]),
        1 => ContentAddress([0xff; 32]),
        2 => {
            let mut a = [0u8; 32];
            a[r.below(32)] = 1 << r.below(8);
            ContentAddress(a)
        }
        _ => ContentAddress(r.bytes32()),
    }
}

pub fn gen_words(r: &mut Rng, max: usize) -> Vec<Word> {
    let n = match r.below(12) {
        0 => 0,
        1 => max,
        2 => max.saturating_sub(1),
        _ => r.below(max.min(6) + 1),
    };
    (0..n).map(|_| crate::vmgen::word(r)).collect()
}

pub fn gen_predicate(r: &mut Rng, big: bool) -> Predicate {
    let (nn, ne) = if big {
        (*r.pick(&[0usize, 1, 999, 1000]), *r.pick(&[0usize, 1, 999, 1000]))
    } else if r.chance(0.02) {
        // mid-range sizes (where a chunked encoder / decoder would switch)
        (*r.pick(&[17usize, 64, 65, 128, 255, 256, 257, 513]), *r.pick(&[16usize, 63, 64, 65, 255, 256, 257, 600]))
    } else {
        (r.below(7), r.below(9))
    };
    let nodes = (0..nn)
        .map(|_| Node {
            edge_start: match r.below(6) {
                0 => Edge::MAX,
                1 => Edge::MAX - 1,
                2 => ne as Edge,
                3 => (ne + 1) as Edge,
                _ => r.below(ne + 1) as Edge,
            },
            program_address: gen_addr(r),
        })
        .collect();
    let edges = (0..ne).map(|_| if r.chance(0.9) { r.below(nn.max(1) + 1) as Edge } else { r.next_u64() as Edge }).collect();
    Predicate { nodes, edges }
}

pub fn gen_mutation(r: &mut Rng, big: bool) -> Mutation {
    Mutation {
        key: gen_words(r, if big { 1000 } else { 5 }),
        value: gen_words(r, if big { 10_000 } else { 6 }),
    }
}

pub fn gen_solution(r: &mut Rng, big: bool) -> Solution {
    Solution {
        predicate_to_solve: PredicateAddress { contract: gen_addr(r), predicate: gen_addr(r) },
        predicate_data: (0..r.below(if big { 101 } else { 4 })).map(|_| gen_words(r, if big { 200 } else { 5 })).collect(),
        state_mutations: (0..r.below(4))
            .map(|_| {
                let b = big && r.chance(0.2);
                gen_mutation(r, b)
            })
            .collect(),
    }
}

pub fn gen_signature(r: &mut Rng) -> Signature {
    let mut s = [0u8; 64];
    s.copy_from_slice(&r.bytes(64));
    Signature(s, r.below(256) as u8)
}

/// Single-field perturbations of a predicate (each yields a different value).
pub fn perturb_predicate(r: &mut Rng, p: &Predicate) -> Predicate {
    let mut q = p.clone();
    for _ in 0..20 {
        match r.below(7) {
            0 if !q.nodes.is_empty() => {
                let i = r.below(q.nodes.len());
                q.nodes[i].edge_start ^= 1 << r.below(16);
            }
            1 if !q.nodes.is_empty() => {
                let i = r.below(q.nodes.len());
                q.nodes[i].program_address.0[r.below(32)] ^= 1 << r.below(8);
            }
            2 if !q.edges.is_empty() => {
                let i = r.below(q.edges.len());
                q.edges[i] ^= 1 << r.below(16);
            }
            3 if q.edges.len() < 1000 => q.edges.push(r.below(4) as Edge),
            4 if !q.edges.is_empty() => {
                q.edges.pop();
            }
            5 if q.nodes.len() < 1000 => q.nodes.push(Node { edge_start: 0, program_address: ContentAddress([0; 32]) }),
            6 if q.nodes.len() >= 2 => {
                // swap two nodes (order is significant in a predicate)
                let i = r.below(q.nodes.len() - 1);
                q.nodes.swap(i, i + 1);
            }
            _ => continue,
        }
        if q != *p {
            return q;
        }
    }
    q.edges.push(7);
    q
}

/// Near-collision perturbations of a solution: move a word across a boundary, etc.
pub fn perturb_solution(r: &mut Rng, s: &Solution) -> Solution {
    let mut q = s.clone();
    for _ in 0..30 {
        match r.below(9) {
            0 => q.predicate_to_solve.contract.0[r.below(32)] ^= 1 << r.below(8),
            1 => q.predicate_to_solve.predicate.0[r.below(32)] ^= 1 << r.below(8),
            2 => std::mem::swap(&mut q.predicate_to_solve.contract, &mut q.predicate_to_solve.predicate),
            3 if q.predicate_data.len() >= 2 => {
                // move the last word of one slot to the front of the next
                let i = r.below(q.predicate_data.len() - 1);
                if let Some(w) = q.predicate_data[i].pop() {
                    q.predicate_data[i + 1].insert(0, w);
                }
            }
            4 if !q.state_mutations.is_empty() => {
                // move a word between key and value
                let i = r.below(q.state_mutations.len());
                let m = &mut q.state_mutations[i];
                if let Some(w) = m.key.pop() {
                    m.value.insert(0, w);
                } else if !m.value.is_empty() {
                    let w = m.value.remove(0);
                    m.key.push(w);
                }
            }
            5 => q.predicate_data.push(vec![]),
            6 if !q.predicate_data.is_empty() => {
                // a slot becomes a mutation key
                let v = q.predicate_data.pop().unwrap();
                q.state_mutations.insert(0, Mutation { key: v, value: vec![] });
            }
            7 if !q.state_mutations.is_empty() => {
                let i = r.below(q.state_mutations.len());
                let m = &mut q.state_mutations[i];
                std::mem::swap(&mut m.key, &mut m.value);
            }
            8 if !q.predicate_data.is_empty() => {
                let i = r.below(q.predicate_data.len());
                if q.predicate_data[i].is_empty() {
                    q.predicate_data[i].push(0);
                } else {
                    let j = r.below(q.predicate_data[i].len());
                    q.predicate_data[i][j] = q.predicate_data[i][j].wrapping_add(1);
                }
            }
            _ => continue,
        }
        if q != *s {
            return q;
        }
    }
    q.predicate_data.push(vec![1]);
    q
}

// ---------------------------------------------------------------------------------------

struct Buckets {
    /// hash of pre-hash bytes -> hash of the value's Debug rendering
    seen: HashMap<u64, u64>,
}

impl Buckets {
    /// Two distinct values with equal pre-hash bytes refute injectivity.
    fn insert(&mut self, pre: &[u8], value_dbg: &str) -> bool {
        let k = crate::rng::fnv(pre) ^ (pre.len() as u64).rotate_left(40);
        let v = crate::rng::fnv(value_dbg.as_bytes());
        match self.seen.insert(k, v) {
            Some(old) => old == v,
            None => true,
        }
    }
}

fn c17_round(r: &mut Rng, rep: &mut Report, b: &mut Buckets, big: bool) {
    // --- predicate
    let p = gen_predicate(r, big);
    let case = |what: &str, v: serde_json::Value| json!({"engine": "formats", "what": what, "value": v});
    crate::wal(&|| case("predicate", serde_json::to_value(&p).unwrap()));
    rep.evaluations += 1;
    let own = own_predicate_bytes(&p);
    let res = catch(|| (p.encode().map(|i| i.collect::<Vec<u8>>()), p.encoded_size(), content_addr(&p), p.content_address()));
    match res {
        Err(e) => rep.violation("C17", "panic", format!("predicate hashing panicked: {e}"), case("predicate", serde_json::to_value(&p).unwrap())),
        Ok((enc, size, addr, addr2)) => {
            let pv = || case("predicate", serde_json::to_value(&p).unwrap());
            match enc {
                Ok(enc) => {
                    if enc != own {
                        rep.violation("C17", "predicate-encoding", "encode() differs from the documented encoding".into(), pv());
                    }
                    if size != enc.len() {
                        rep.violation("C17", "encoded-size", format!("encoded_size() = {size}, encode() yields {} bytes", enc.len()), pv());
                    }
                    if !b.insert(&enc, &format!("{p:?}")) {
                        rep.violation("C17", "not-injective", "two distinct predicates share their pre-hash bytes".into(), pv());
                    }
                }
                Err(e) => rep.violation("C17", "predicate-encoding", format!("predicate within limits failed to encode: {e:?}"), pv()),
            }
            if addr.0 != sha(&own) || addr2 != addr {
                rep.violation("C17", "predicate-address", "content address is not SHA-256 of the documented encoding (or helpers disagree)".into(), pv());
            }
            // single-field perturbation must change the hashed bytes
            let q = perturb_predicate(r, &p);
            if let (Ok(e1), Ok(e2)) = (p.encode().map(|i| i.collect::<Vec<u8>>()), q.encode().map(|i| i.collect::<Vec<u8>>())) {
                rep.count("perturbations");
                if e1 == e2 || content_addr(&q) == addr {
                    rep.violation("C17", "not-injective", format!("a perturbed predicate hashes the same bytes: {q:?}"), pv());
                }
            }
            if p.nodes.len() + p.edges.len() >= 2 {
                rep.nontrivial(crate::rng::fnv(&own));
            }
        }
    }
    // --- program
    let n = r.below(40);
    let prog = Program(r.bytes(n));
    rep.evaluations += 1;
    if content_addr(&prog).0 != sha(&prog.0) || prog.content_address() != content_addr(&prog) {
        rep.violation("C17", "program-address", "program address is not SHA-256 of its bytes".into(), case("program", json!(hex::encode(&prog.0))));
    }
    let mut prog2 = prog.clone();
    if prog2.0.is_empty() || r.chance(0.3) {
        prog2.0.push(0);
    } else {
        let i = r.below(prog2.0.len());
        prog2.0[i] ^= 1 << r.below(8);
    }
    if content_addr(&prog2) == content_addr(&prog) {
        rep.violation("C17", "not-injective", "a changed program keeps its address".into(), case("program", json!(hex::encode(&prog.0))));
    }
    // --- contract
    // (the address is defined for any number of predicates; 100 is the validator's limit)
    let np = if big { *r.pick(&[0usize, 1, 99, 100, 101, 130]) } else { r.below(5) };
    let mut preds: Vec<Predicate> = (0..np).map(|_| gen_predicate(r, false)).collect();
    if np >= 2 && r.chance(0.3) {
        preds[1] = preds[0].clone(); // duplicates: a multiset, not a set
    }
    let c = Contract { predicates: preds, salt: if r.chance(0.3) { [0; 32] } else { r.bytes32() } };
    rep.evaluations += 1;
    let cv = || case("contract", serde_json::to_value(&c).unwrap());
    let addr = content_addr(&c);
    if addr.0 != own_contract_addr(&c) {
        rep.violation("C17", "contract-address", "contract address is not SHA-256(sorted predicate addresses || salt)".into(), cv());
    }
    let paddrs: Vec<ContentAddress> = c.predicates.iter().map(content_addr).collect();
    let mut slice = paddrs.clone();
    r.shuffle(&mut slice);
    if contract_addr::from_contract(&c) != addr
        || contract_addr::from_predicate_addrs(paddrs.iter().cloned(), &c.salt) != addr
        || contract_addr::from_predicate_addrs_slice(&mut slice, &c.salt) != addr
        || c.content_address() != addr
    {
        rep.violation("C17", "helpers-disagree", "contract address helpers disagree".into(), cv());
    }
    let mut c2 = c.clone();
    r.shuffle(&mut c2.predicates);
    if content_addr(&c2) != addr {
        rep.violation("C17", "order-dependent", "contract address changes under permutation of predicates".into(), cv());
    }
    rep.count("permutations");
    // perturb: salt, one predicate, add / drop / duplicate a predicate
    let mut c3 = c.clone();
    match r.below(5) {
        0 => c3.salt[r.below(32)] ^= 1 << r.below(8),
        1 if !c3.predicates.is_empty() => {
            let i = r.below(c3.predicates.len());
            c3.predicates[i] = perturb_predicate(r, &c3.predicates[i]);
        }
        2 => c3.predicates.push(gen_predicate(r, false)),
        3 if !c3.predicates.is_empty() => {
            let i = r.below(c3.predicates.len());
            let d = c3.predicates[i].clone();
            c3.predicates.push(d);
        }
        _ => {
            c3.salt = sha(&c3.salt);
        }
    }
    let mut m1: Vec<_> = c.predicates.iter().map(own_predicate_bytes).collect();
    let mut m3: Vec<_> = c3.predicates.iter().map(own_predicate_bytes).collect();
    m1.sort();
    m3.sort();
    if (m1 != m3 || c.salt != c3.salt) && content_addr(&c3) == addr {
        rep.violation("C17", "not-injective", format!("a different contract has the same address: {c3:?}"), cv());
    }
    rep.count("perturbations");
    if c.predicates.len() >= 2 {
        rep.nontrivial(crate::rng::fnv(&addr.0));
    }
    // --- solution
    let s = gen_solution(r, big);
    rep.evaluations += 1;
    let sv = || case("solution", serde_json::to_value(&s).unwrap());
    let own = own_postcard_solution(&s);
    let real = essential_hash::serialize(&s);
    if real != own {
        rep.violation("C17", "solution-encoding", "postcard pre-hash bytes differ from the harness' own writer".into(), sv());
    }
    if content_addr(&s).0 != sha(&own) || s.content_address() != content_addr(&s) || essential_hash::hash(&s) != sha(&own) {
        rep.violation("C17", "solution-address", "solution address is not SHA-256 of its postcard bytes".into(), sv());
    }
    if !b.insert(&real, &format!("{s:?}")) {
        rep.violation("C17", "not-injective", "two distinct solutions share their pre-hash bytes".into(), sv());
    }
    let s2 = perturb_solution(r, &s);
    let real2 = essential_hash::serialize(&s2);
    if real2 == real || content_addr(&s2) == content_addr(&s) {
        rep.violation("C17", "not-injective", format!("a perturbed solution hashes the same bytes: {s2:?}"), sv());
    }
    if !b.insert(&real2, &format!("{s2:?}")) {
        rep.violation("C17", "not-injective", "two distinct solutions share their pre-hash bytes".into(), sv());
    }
    rep.count("perturbations");
    rep.nontrivial(crate::rng::fnv(&own));
    // --- solution set
    let ns = if big { *r.pick(&[1usize, 2, 99, 100, 101, 130]) } else { 1 + r.below(5) };
    let mut sols: Vec<Solution> = (0..ns).map(|_| gen_solution(r, false)).collect();
    if ns >= 2 && r.chance(0.3) {
        sols[1] = sols[0].clone();
    }
    let set = SolutionSet { solutions: sols };
    rep.evaluations += 1;
    let setv = || case("set", serde_json::to_value(&set).unwrap());
    let addr = content_addr(&set);
    if addr.0 != own_set_addr(&set) {
        rep.violation("C17", "set-address", "set address is not SHA-256(sorted solution addresses)".into(), setv());
    }
    let saddrs: Vec<ContentAddress> = set.solutions.iter().map(content_addr).collect();
    let mut slice = saddrs.clone();
    r.shuffle(&mut slice);
    if solution_set_addr::from_set(&set) != addr
        || solution_set_addr::from_solution_addrs(saddrs.iter().cloned()) != addr
        || solution_set_addr::from_solution_addrs_slice(&mut slice) != addr
        || set.content_address() != addr
    {
        rep.violation("C17", "helpers-disagree", "set address helpers disagree".into(), setv());
    }
    let mut set2 = set.clone();
    r.shuffle(&mut set2.solutions);
    if content_addr(&set2) != addr {
        rep.violation("C17", "order-dependent", "set address changes under permutation of solutions".into(), setv());
    }
    rep.count("permutations");
    let mut set3 = set.clone();
    match r.below(3) {
        0 => {
            let i = r.below(set3.solutions.len());
            set3.solutions[i] = perturb_solution(r, &set3.solutions[i]);
        }
        1 => set3.solutions.push(gen_solution(r, false)),
        _ => {
            let d = set3.solutions[0].clone();
            set3.solutions.push(d);
        }
    }
    let mut m1: Vec<_> = set.solutions.iter().map(own_postcard_solution).collect();
    let mut m3: Vec<_> = set3.solutions.iter().map(own_postcard_solution).collect();
    m1.sort();
    m3.sort();
    if m1 != m3 && content_addr(&set3) == addr {
        rep.violation("C17", "not-injective", "a different solution set has the same address".into(), setv());
    }
    rep.count("perturbations");
    rep.sample(2, || json!({"predicate": p, "solution": s, "note": "plus a program, a contract and a solution set per round, each with a permutation and a single-field perturbation"}));
}

fn rt_json<T: serde::Serialize + serde::de::DeserializeOwned + PartialEq + std::fmt::Debug>(v: &T) -> Result<(), String> {
    let s = serde_json::to_string(v).map_err(|e| format!("to json: {e}"))?;
    let back: T = serde_json::from_str(&s).map_err(|e| format!("from json: {e} ({})", &s[..s.len().min(120)]))?;
    if back != *v {
        return Err(format!("json round trip changed the value ({})", &s[..s.len().min(120)]));
    }
    let val = serde_json::to_value(v).map_err(|e| format!("to value: {e}"))?;
    let back: T = serde_json::from_value(val).map_err(|e| format!("from value: {e}"))?;
    if back != *v {
        return Err("json value round trip changed the value".into());
    }
    Ok(())
}

fn rt_postcard<T: serde::Serialize + serde::de::DeserializeOwned + PartialEq + std::fmt::Debug>(v: &T) -> Result<(), String> {
    let b = postcard::to_allocvec(v).map_err(|e| format!("to postcard: {e}"))?;
    let back: T = postcard::from_bytes(&b).map_err(|e| format!("from postcard: {e}"))?;
    if back != *v {
        return Err("postcard round trip changed the value".into());
    }
    Ok(())
}

fn c18_round(r: &mut Rng, rep: &mut Report, big: bool) {
    let case = |what: &str, v: serde_json::Value| json!({"engine": "formats", "what": what, "value": v});
    // --- predicate wire format + node_edges
    let p = gen_predicate(r, big);
    crate::wal(&|| case("predicate", serde_json::to_value(&p).unwrap()));
    rep.evaluations += 1;
    let pv = || case("predicate", serde_json::to_value(&p).unwrap());
    match catch(|| p.encode().map(|i| Predicate::decode(&i.collect::<Vec<u8>>()))) {
        Err(e) => rep.violation("C18", "panic", format!("predicate codec panicked: {e}"), pv()),
        Ok(Ok(Ok(back))) => {
            if back != p {
                rep.violation("C18", "predicate-roundtrip", "decode(encode(p)) != p".into(), pv());
            }
        }
        Ok(other) => rep.violation("C18", "predicate-roundtrip", format!("encode/decode failed: {other:?}"), pv()),
    }
    for i in 0..p.nodes.len() + 2 {
        let real = catch(|| p.node_edges(i).map(|e| e.to_vec()));
        match real {
            Err(e) => rep.violation("C18", "panic", format!("node_edges panicked: {e}"), pv()),
            Ok(real) => {
                if real != own_node_edges(&p, i) {
                    rep.violation("C18", "node-edges", format!("node_edges({i}) = {real:?}, documented slice = {:?}", own_node_edges(&p, i)), pv());
                }
                rep.count("node_edges_checked");
            }
        }
    }
    if p.nodes.len() >= 2 {
        rep.nontrivial(crate::rng::fnv(&own_predicate_bytes(&p)));
    }
    // --- mutations
    let nm = if r.chance(0.01) { *r.pick(&[17usize, 64, 65, 255, 256, 257, 1000]) } else { r.below(5) };
    let ms: Vec<Mutation> = (0..nm)
        .map(|_| {
            let b = big && nm < 5 && r.chance(0.3);
            gen_mutation(r, b)
        })
        .collect();
    rep.evaluations += 1;
    let mv = || case("mutations", serde_json::to_value(&ms).unwrap());
    let enc: Vec<Word> = encode::encode_mutations(&ms).collect();
    match catch(|| decode::decode_mutations(&enc)) {
        Err(e) => rep.violation("C18", "panic", format!("decode_mutations panicked: {e}"), mv()),
        Ok(Ok(back)) => {
            if back != ms {
                rep.violation("C18", "mutations-roundtrip", format!("decode_mutations(encode_mutations(ms)) = {back:?}"), mv());
            }
        }
        Ok(Err(e)) => rep.violation("C18", "mutations-roundtrip", format!("decoding an encoding failed: {e:?}"), mv()),
    }
    for m in &ms {
        let e: Vec<Word> = m.encode().collect();
        if e.len() != m.encode_size() || Mutation::decode_mutation(&e).ok().as_ref() != Some(m) || decode::decode_mutation(&e).ok().as_ref() != Some(m) {
            rep.violation("C18", "mutation-roundtrip", "single mutation round trip / encode_size".into(), mv());
        }
        let own: Vec<Word> = [m.key.len() as Word].into_iter().chain(m.key.iter().copied()).chain([m.value.len() as Word]).chain(m.value.iter().copied()).collect();
        if e != own {
            rep.violation("C18", "mutation-layout", "encoding is not key_len, key.., value_len, value..".into(), mv());
        }
    }
    if !ms.is_empty() {
        rep.nontrivial(crate::rng::fnv_words(&enc));
    }
    // --- words / bytes / hex
    let ws: Vec<Word> = gen_words(r, 12);
    rep.evaluations += 1;
    let wv = || case("words", json!(ws));
    for &w in &ws {
        let b = convert::bytes_from_word(w);
        if convert::word_from_bytes(b) != w || convert::word_from_bytes_slice(&b) != w {
            rep.violation("C18", "word-bytes", format!("word {w} does not survive bytes_from_word / word_from_bytes"), wv());
        }
    }
    let raw: [u8; 8] = r.bytes(8).try_into().unwrap();
    if convert::bytes_from_word(convert::word_from_bytes(raw)) != raw {
        rep.violation("C18", "word-bytes", "bytes do not survive word_from_bytes / bytes_from_word".into(), case("bytes", json!(raw)));
    }
    let hexs = convert::hex_str_from_words(&ws);
    match convert::words_from_hex_str(&hexs) {
        Ok(back) if back == ws => {}
        other => rep.violation("C18", "hex-words", format!("hex round trip of words gave {other:?}"), wv()),
    }
    if convert::words_from_hex_str(&hexs.to_lowercase()).ok() != convert::words_from_hex_str(&hexs.to_uppercase()).ok() {
        rep.violation("C18", "hex-words", "hex parsing is case sensitive".into(), wv());
    }
    let a32 = r.bytes32();
    let w4 = convert::word_4_from_u8_32(a32);
    let w4r: [Word; 4] = std::array::from_fn(|_| r.word());
    if convert::u8_32_from_word_4(w4) != a32 || convert::word_4_from_u8_32(convert::u8_32_from_word_4(w4r)) != w4r {
        rep.violation("C18", "array-words", "[u8;32] <-> [Word;4] are not inverse".into(), case("bytes32", json!(hex::encode(a32))));
    }
    let a64: [u8; 64] = r.bytes(64).try_into().unwrap();
    let w8r: [Word; 8] = std::array::from_fn(|_| r.word());
    if convert::u8_64_from_word_8(convert::word_8_from_u8_64(a64)) != a64 || convert::word_8_from_u8_64(convert::u8_64_from_word_8(w8r)) != w8r {
        rep.violation("C18", "array-words", "[u8;64] <-> [Word;8] are not inverse".into(), case("bytes64", json!(hex::encode(a64))));
    }
    let ca = ContentAddress(a32);
    let cw: [Word; 4] = ca.clone().into();
    let cb: [u8; 32] = ca.clone().into();
    if ContentAddress::from(cw) != ca || ContentAddress::from(cb) != ca || cw != w4 {
        rep.violation("C18", "array-words", "ContentAddress conversions are not inverse".into(), case("bytes32", json!(hex::encode(a32))));
    }
    let sig = gen_signature(r);
    let sb: [u8; 65] = sig.clone().into();
    if Signature::from(sb) != sig || sb[..64] != sig.0 || sb[64] != sig.1 {
        rep.violation("C18", "signature-bytes", "Signature <-> [u8;65] are not inverse".into(), case("signature", json!(hex::encode(sb))));
    }
    // --- Display / FromStr
    if ca.to_string().parse::<ContentAddress>().ok().as_ref() != Some(&ca) || ca.to_string().to_lowercase().parse::<ContentAddress>().ok().as_ref() != Some(&ca) {
        rep.violation("C18", "display-fromstr", "ContentAddress does not survive to_string().parse()".into(), case("bytes32", json!(hex::encode(a32))));
    }
    if format!("{ca:x}").parse::<ContentAddress>().ok().as_ref() != Some(&ca) || format!("{ca:X}") != ca.to_string() {
        rep.violation("C18", "display-fromstr", "ContentAddress hex formatting is inconsistent".into(), case("bytes32", json!(hex::encode(a32))));
    }
    if sig.to_string().parse::<Signature>().ok().as_ref() != Some(&sig) || format!("{sig:x}").parse::<Signature>().ok().as_ref() != Some(&sig) {
        rep.violation("C18", "display-fromstr", "Signature does not survive to_string().parse()".into(), case("signature", json!(hex::encode(sb))));
    }
    let pa = PredicateAddress { contract: ca.clone(), predicate: gen_addr(r) };
    if pa.to_string() != format!("{}:{}", pa.contract, pa.predicate) {
        rep.violation("C18", "display-fromstr", "PredicateAddress display".into(), case("bytes32", json!(hex::encode(a32))));
    }
    // --- serde, both kinds of format
    let n = r.below(30);
    let prog = Program(r.bytes(n));
    let contract = Contract { predicates: (0..r.below(4)).map(|_| gen_predicate(r, false)).collect(), salt: r.bytes32() };
    let signed = SignedContract { contract: contract.clone(), signature: sig.clone() };
    let bigsol = big && r.chance(0.2);
    let sol = gen_solution(r, bigsol);
    let set = SolutionSet { solutions: (0..1 + r.below(3)).map(|_| gen_solution(r, false)).collect() };
    let m = gen_mutation(r, false);
    rep.evaluations += 1;
    macro_rules! both {
        ($name:expr, $v:expr) => {
            for (fmt, res) in [("json", catch(|| rt_json($v))), ("postcard", catch(|| rt_postcard($v)))] {
                rep.count("serde_roundtrips");
                match res {
                    Err(e) => rep.violation("C18", "panic", format!("{} {} panicked: {e}", $name, fmt), case($name, serde_json::to_value($v).unwrap_or_default())),
                    Ok(Err(e)) => rep.violation("C18", "serde-roundtrip", format!("{} via {}: {e}", $name, fmt), case($name, serde_json::to_value($v).unwrap_or_default())),
                    Ok(Ok(())) => {}
                }
            }
        };
    }
    both!("Predicate", &p);
    both!("Program", &prog);
    both!("Contract", &contract);
    both!("SignedContract", &signed);
    both!("Solution", &sol);
    both!("SolutionSet", &set);
    both!("Mutation", &m);
    both!("ContentAddress", &ca);
    both!("PredicateAddress", &pa);
    both!("Signature", &sig);
    // human-readable forms are hex strings
    if serde_json::to_value(&ca).ok() != Some(json!(ca.to_string())) {
        rep.violation("C18", "serde-human-readable", "ContentAddress is not a hex string in JSON".into(), case("bytes32", json!(hex::encode(a32))));
    }
    if serde_json::to_value(&prog).ok().and_then(|v| v.as_str().map(|s| s.to_lowercase())) != Some(hex::encode(&prog.0)) {
        rep.violation("C18", "serde-human-readable", "Program is not a hex string in JSON".into(), case("program", json!(hex::encode(&prog.0))));
    }
    if serde_json::to_value(&sig).ok() != Some(json!(sig.to_string())) {
        rep.violation("C18", "serde-human-readable", "Signature is not a hex string in JSON".into(), case("signature", json!(hex::encode(sb))));
    }
    // legacy field names accepted on input
    let mut v = serde_json::to_value(&set).unwrap();
    let sols = v.as_object_mut().unwrap().remove("solutions").unwrap();
    let sols: Vec<serde_json::Value> = sols
        .as_array()
        .unwrap()
        .iter()
        .map(|s| {
            let mut s = s.clone();
            let o = s.as_object_mut().unwrap();
            let pd = o.remove("predicate_data").unwrap();
            o.insert("decision_variables".into(), pd);
            s
        })
        .collect();
    let legacy = json!({ "data": sols });
    match serde_json::from_value::<SolutionSet>(legacy.clone()) {
        Ok(back) if back == set => rep.count("legacy_names_accepted"),
        other => rep.violation("C18", "legacy-names", format!("legacy field names not accepted: {other:?}"), case("legacy-set", legacy)),
    }
    rep.sample(2, || json!({"predicate": p, "mutations": ms, "words": ws, "note": "plus byte arrays, Signature, Program, Contract, SignedContract, Solution, SolutionSet per round"}));
}

/// Exhaustive small sub-spaces (sharded): every list of <= 3 mutations with key / value lengths 0..=2, and every
/// predicate of <= 3 nodes whose `edge_start` ranges over {0..=edges.len()+1, MAX-1, MAX} with 0..=3 edges.
fn c18_exhaustive(args: &Args, rep: &mut Report) {
    let case = |what: &str, v: serde_json::Value| json!({"engine": "formats", "what": what, "value": v});
    let shapes: Vec<(usize, usize)> = (0..3).flat_map(|k| (0..3).map(move |v| (k, v))).collect();
    let mut n = 0u64;
    let mut lists: Vec<Vec<(usize, usize)>> = vec![vec![]];
    for len in 1..=3usize {
        let mut idx = vec![0usize; len];
        loop {
            lists.push(idx.iter().map(|i| shapes[*i]).collect());
            let mut k = 0;
            while k < len {
                idx[k] += 1;
                if idx[k] < shapes.len() {
                    break;
                }
                idx[k] = 0;
                k += 1;
            }
            if k == len {
                break;
            }
        }
    }
    let miri = args.regime == "miri";
    for l in &lists {
        n += 1;
        if n % args.nshards as u64 != args.shard as u64 || (miri && l.len() > 2) {
            continue;
        }
        let mut w = 10;
        let ms: Vec<Mutation> = l
            .iter()
            .map(|(k, v)| {
                let key = (0..*k).map(|_| { w += 1; w }).collect();
                let value = (0..*v).map(|_| { w += 1; w }).collect();
                Mutation { key, value }
            })
            .collect();
        rep.evaluations += 1;
        rep.count("exhaustive.mutation_lists");
        let enc: Vec<Word> = encode::encode_mutations(&ms).collect();
        let own: Vec<Word> = [ms.len() as Word]
            .into_iter()
            .chain(ms.iter().flat_map(|m| [m.key.len() as Word].into_iter().chain(m.key.iter().copied()).chain([m.value.len() as Word]).chain(m.value.iter().copied())))
            .collect();
        let mv = || case("mutations", serde_json::to_value(&ms).unwrap());
        if enc != own {
            rep.violation("C18", "mutation-layout", "encoding of a list is not count, (key_len, key.., value_len, value..)*".into(), mv());
        }
        match catch(|| decode::decode_mutations(&enc)) {
            Ok(Ok(back)) if back == ms => {}
            other => rep.violation("C18", "mutations-roundtrip", format!("decode_mutations(encode_mutations(ms)) = {other:?}"), mv()),
        }
        if !ms.is_empty() {
            rep.nontrivial(crate::rng::fnv_words(&enc));
        }
    }
    // predicates
    for nn in 0..=(if miri { 2 } else { 3usize }) {
        for ne in 0..=(if miri { 1 } else { 3usize }) {
            let starts: Vec<Edge> = (0..=ne as Edge + 1).chain([Edge::MAX - 1, Edge::MAX]).collect();
            let total = starts.len().pow(nn as u32);
            for ix in 0..total {
                n += 1;
                if n % args.nshards as u64 != args.shard as u64 {
                    continue;
                }
                let mut k = ix;
                let nodes: Vec<Node> = (0..nn)
                    .map(|i| {
                        let es = starts[k % starts.len()];
                        k /= starts.len();
                        Node { edge_start: es, program_address: ContentAddress([i as u8 + 1; 32]) }
                    })
                    .collect();
                let p = Predicate { nodes, edges: (0..ne).map(|e| ((e + 1) % nn.max(1)) as Edge).collect() };
                rep.evaluations += 1;
                rep.count("exhaustive.predicates");
                let pv = || case("predicate", serde_json::to_value(&p).unwrap());
                let own = own_predicate_bytes(&p);
                match catch(|| p.encode().map(|i| i.collect::<Vec<u8>>())) {
                    Ok(Ok(enc)) => {
                        if enc != own {
                            rep.violation(if args.prop == "C17" { "C17" } else { "C18" }, "predicate-encoding", "encode() differs from the documented encoding".into(), pv());
                        }
                        if enc.len() != p.encoded_size() {
                            rep.violation("C17", "encoded-size", format!("encoded_size() = {}, encode() yields {} bytes", p.encoded_size(), enc.len()), pv());
                        }
                        match catch(|| Predicate::decode(&enc)) {
                            Ok(Ok(back)) if back == p => {}
                            other => rep.violation("C18", "predicate-roundtrip", format!("decode(encode(p)) = {other:?}"), pv()),
                        }
                        if content_addr(&p).0 != sha(&own) {
                            rep.violation("C17", "predicate-address", "content address is not SHA-256 of the documented encoding".into(), pv());
                        }
                    }
                    other => rep.violation("C18", "predicate-roundtrip", format!("a predicate within limits failed to encode: {other:?}"), pv()),
                }
                for i in 0..nn + 2 {
                    match catch(|| p.node_edges(i).map(|e| e.to_vec())) {
                        Ok(real) if real == own_node_edges(&p, i) => {}
                        other => rep.violation("C18", "node-edges", format!("node_edges({i}) = {other:?}, documented slice = {:?}", own_node_edges(&p, i)), pv()),
                    }
                    rep.count("node_edges_checked");
                }
                if nn >= 2 {
                    rep.nontrivial(crate::rng::fnv(&own));
                }
            }
        }
    }
    rep.set("exhaustive_subspaces", "all lists of <= 3 mutations with key/value lengths 0..=2; all predicates of <= 3 nodes x <= 3 edges with edge_start over {0..=edges+1, MAX-1, MAX}".to_string());
}

pub fn run(args: &Args, rep: &mut Report) {
    crate::vmcase::install_panic_hook();
    let thorough = args.tier == "thorough";
    if args.prop == "C17" || args.prop == "C18" {
        c18_exhaustive(args, rep);
    }
    let mut r = Rng::new(crate::rng::mix(args.seed.wrapping_mul(1_000_003) + args.shard as u64, 0xf0a7));
    let rounds = ((if thorough { 8_000_000.0 } else { 300_000.0 }) * args.scale) as u64 / args.nshards as u64;
    let mut b = Buckets { seen: HashMap::new() };
    for i in 0..rounds.max(1) {
        let big = i % 50 == 7;
        match args.prop.as_str() {
            "C17" => c17_round(&mut r, rep, &mut b, big),
            "C18" => c18_round(&mut r, rep, big),
            other => {
                rep.inconclusive.push(format!("formats engine has no workload for {other}"));
                return;
            }
        }
    }
    rep.add("prehash_buckets", b.seen.len() as u64);
}

/// Replay a recorded case of this engine from its data: the deterministic checks that apply to a value of the
/// recorded kind (encoding against the documented layout, address against SHA-256 of the own encoding, helper
/// agreement, order independence under 20 permutations, round trips, `node_edges` for every index).
pub fn replay(case: &serde_json::Value, rep: &mut Report) {
    crate::vmcase::install_panic_hook();
    let what = case.get("what").and_then(|w| w.as_str()).unwrap_or("");
    let value = case.get("value").cloned().unwrap_or_default();
    let mut r = Rng::new(0xf0a7);
    let c = || case.clone();
    match what {
        "predicate" => {
            let Ok(p) = serde_json::from_value::<Predicate>(value) else {
                rep.inconclusive.push("cannot read the recorded predicate".into());
                return;
            };
            let own = own_predicate_bytes(&p);
            match catch(|| (p.encode().map(|i| i.collect::<Vec<u8>>()), p.encoded_size(), content_addr(&p), p.content_address())) {
                Err(e) => rep.violation("C17", "panic", format!("predicate hashing panicked: {e}"), c()),
                Ok((enc, size, a1, a2)) => {
                    match enc {
                        Ok(enc) => {
                            if enc != own {
                                rep.violation("C17", "predicate-encoding", "encode() differs from the documented encoding".into(), c());
                            }
                            if size != enc.len() {
                                rep.violation("C17", "encoded-size", format!("encoded_size() = {size}, encode() yields {} bytes", enc.len()), c());
                            }
                            match catch(|| Predicate::decode(&enc)) {
                                Ok(Ok(back)) if back == p => {}
                                other => rep.violation("C18", "predicate-roundtrip", format!("decode(encode(p)) = {other:?}"), c()),
                            }
                        }
                        Err(e) => {
                            if p.nodes.len() <= 1000 && p.edges.len() <= 1000 {
                                rep.violation("C17", "predicate-encoding", format!("predicate within limits failed to encode: {e:?}"), c());
                            }
                        }
                    }
                    if p.nodes.len() <= 1000 && p.edges.len() <= 1000 && (a1.0 != sha(&own) || a1 != a2) {
                        rep.violation("C17", "predicate-address", "content address is not SHA-256 of the documented encoding (or helpers disagree)".into(), c());
                    }
                }
            }
            for i in 0..p.nodes.len() + 2 {
                match catch(|| p.node_edges(i).map(|e| e.to_vec())) {
                    Ok(real) if real == own_node_edges(&p, i) => {}
                    other => rep.violation("C18", "node-edges", format!("node_edges({i}) = {other:?}, documented slice = {:?}", own_node_edges(&p, i)), c()),
                }
            }
            for _ in 0..50 {
                let q = perturb_predicate(&mut r, &p);
                if let (Ok(e1), Ok(e2)) = (p.encode().map(|i| i.collect::<Vec<u8>>()), q.encode().map(|i| i.collect::<Vec<u8>>())) {
                    if e1 == e2 || content_addr(&q) == content_addr(&p) {
                        rep.violation("C17", "not-injective", format!("a perturbed predicate hashes the same bytes: {q:?}"), c());
                        break;
                    }
                }
            }
        }
        "program" => {
            let bytes = value.as_str().and_then(|s| hex::decode(s).ok()).unwrap_or_default();
            let prog = Program(bytes);
            if content_addr(&prog).0 != sha(&prog.0) || prog.content_address() != content_addr(&prog) {
                rep.violation("C17", "program-address", "program address is not SHA-256 of its bytes".into(), c());
            }
        }
        "contract" => {
            let Ok(ct) = serde_json::from_value::<Contract>(value) else {
                rep.inconclusive.push("cannot read the recorded contract".into());
                return;
            };
            let addr = content_addr(&ct);
            if addr.0 != own_contract_addr(&ct) {
                rep.violation("C17", "contract-address", "contract address is not SHA-256(sorted predicate addresses || salt)".into(), c());
            }
            let paddrs: Vec<ContentAddress> = ct.predicates.iter().map(content_addr).collect();
            for _ in 0..20 {
                let mut slice = paddrs.clone();
                r.shuffle(&mut slice);
                let mut c2 = ct.clone();
                r.shuffle(&mut c2.predicates);
                if contract_addr::from_contract(&ct) != addr
                    || contract_addr::from_predicate_addrs(paddrs.iter().cloned(), &ct.salt) != addr
                    || contract_addr::from_predicate_addrs_slice(&mut slice, &ct.salt) != addr
                    || ct.content_address() != addr
                {
                    rep.violation("C17", "helpers-disagree", "contract address helpers disagree".into(), c());
                    break;
                }
                if content_addr(&c2) != addr {
                    rep.violation("C17", "order-dependent", "contract address changes under permutation of predicates".into(), c());
                    break;
                }
            }
            // systematic single changes: one more copy / one fewer of each predicate, each salt byte, a perturbed member
            let mut variants: Vec<Contract> = vec![];
            for i in 0..ct.predicates.len().min(40) {
                let mut v = ct.clone();
                v.predicates.push(ct.predicates[i].clone());
                variants.push(v);
                let mut v = ct.clone();
                v.predicates.remove(i);
                variants.push(v);
                let mut v = ct.clone();
                v.predicates[i] = perturb_predicate(&mut r, &ct.predicates[i]);
                variants.push(v);
            }
            for b in 0..32 {
                let mut v = ct.clone();
                v.salt[b] ^= 1 << (b % 8);
                variants.push(v);
            }
            let key = |x: &Contract| {
                let mut m: Vec<_> = x.predicates.iter().map(own_predicate_bytes).collect();
                m.sort();
                (m, x.salt)
            };
            for v in variants {
                if key(&v) != key(&ct) && content_addr(&v) == addr {
                    rep.violation("C17", "not-injective", format!("a different contract has the same address: {v:?}"), c());
                    break;
                }
            }
        }
        "solution" => {
            let Ok(sol) = serde_json::from_value::<Solution>(value) else {
                rep.inconclusive.push("cannot read the recorded solution".into());
                return;
            };
            let own = own_postcard_solution(&sol);
            if essential_hash::serialize(&sol) != own {
                rep.violation("C17", "solution-encoding", "postcard pre-hash bytes differ from the harness' own writer".into(), c());
            }
            if content_addr(&sol).0 != sha(&own) || sol.content_address() != content_addr(&sol) || essential_hash::hash(&sol) != sha(&own) {
                rep.violation("C17", "solution-address", "solution address is not SHA-256 of its postcard bytes".into(), c());
            }
            for _ in 0..50 {
                let s2 = perturb_solution(&mut r, &sol);
                if essential_hash::serialize(&s2) == essential_hash::serialize(&sol) || content_addr(&s2) == content_addr(&sol) {
                    rep.violation("C17", "not-injective", format!("a perturbed solution hashes the same bytes: {s2:?}"), c());
                    break;
                }
            }
            if let Err(e) = rt_json(&sol).and(rt_postcard(&sol)) {
                rep.violation("C18", "serde-roundtrip", format!("Solution: {e}"), c());
            }
        }
        "set" => {
            let Ok(set) = serde_json::from_value::<SolutionSet>(value) else {
                rep.inconclusive.push("cannot read the recorded solution set".into());
                return;
            };
            let addr = content_addr(&set);
            if addr.0 != own_set_addr(&set) {
                rep.violation("C17", "set-address", "set address is not SHA-256(sorted solution addresses)".into(), c());
            }
            let saddrs: Vec<ContentAddress> = set.solutions.iter().map(content_addr).collect();
            for _ in 0..20 {
                let mut slice = saddrs.clone();
                r.shuffle(&mut slice);
                let mut set2 = set.clone();
                r.shuffle(&mut set2.solutions);
                if solution_set_addr::from_set(&set) != addr
                    || solution_set_addr::from_solution_addrs(saddrs.iter().cloned()) != addr
                    || solution_set_addr::from_solution_addrs_slice(&mut slice) != addr
                    || set.content_address() != addr
                {
                    rep.violation("C17", "helpers-disagree", "set address helpers disagree".into(), c());
                    break;
                }
                if content_addr(&set2) != addr {
                    rep.violation("C17", "order-dependent", "set address changes under permutation of solutions".into(), c());
                    break;
                }
            }
            let mut variants: Vec<SolutionSet> = vec![];
            for i in 0..set.solutions.len().min(40) {
                let mut v = set.clone();
                v.solutions.push(set.solutions[i].clone());
                variants.push(v);
                let mut v = set.clone();
                v.solutions.remove(i);
                variants.push(v);
                let mut v = set.clone();
                v.solutions[i] = perturb_solution(&mut r, &set.solutions[i]);
                variants.push(v);
            }
            let key = |x: &SolutionSet| {
                let mut m: Vec<_> = x.solutions.iter().map(own_postcard_solution).collect();
                m.sort();
                m
            };
            for v in variants {
                if key(&v) != key(&set) && content_addr(&v) == addr {
                    rep.violation("C17", "not-injective", "a different solution set has the same address".into(), c());
                    break;
                }
            }
        }
        "mutations" => {
            let Ok(ms) = serde_json::from_value::<Vec<Mutation>>(value) else {
                rep.inconclusive.push("cannot read the recorded mutations".into());
                return;
            };
            let enc: Vec<Word> = encode::encode_mutations(&ms).collect();
            match catch(|| decode::decode_mutations(&enc)) {
                Ok(Ok(back)) if back == ms => {}
                other => rep.violation("C18", "mutations-roundtrip", format!("decode_mutations(encode_mutations(ms)) = {other:?}"), c()),
            }
            for m in &ms {
                let e: Vec<Word> = m.encode().collect();
                let own: Vec<Word> = [m.key.len() as Word].into_iter().chain(m.key.iter().copied()).chain([m.value.len() as Word]).chain(m.value.iter().copied()).collect();
                if e != own || e.len() != m.encode_size() || Mutation::decode_mutation(&e).ok().as_ref() != Some(m) {
                    rep.violation("C18", "mutation-roundtrip", "single mutation round trip / layout / encode_size".into(), c());
                }
            }
        }
        other => rep.inconclusive.push(format!("a recorded '{other}' case of the formats engine cannot be replayed from data; its value is in the replay file")),
    }
}
