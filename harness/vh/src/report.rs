//! Worker report: what one shard observed. The driver (`/verif/check`) merges reports,
//! applies the known-findings filter and writes the evidence file.

use serde::{Deserialize, Serialize};
use serde_json::Value;
use std::collections::{BTreeMap, BTreeSet, HashSet};

#[derive(Clone, Debug, Serialize, Deserialize)]
pub struct Violation {
    /// Property the firing oracle belongs to.
    pub property: String,
    /// Short machine-readable kind, e.g. `state-mismatch`, `panic`, `gas-mismatch`.
    pub kind: String,
    /// Human-readable explanation: observed vs expected.
    pub detail: String,
    /// The case, as data, so that it can be replayed (`vh replay`).
    pub case: Value,
}

#[derive(Clone, Debug, Default, Serialize, Deserialize)]
pub struct Report {
    pub engine: String,
    pub seed: u64,
    pub shard: u32,
    /// Cases executed against the real code.
    pub evaluations: u64,
    /// Distinct non-trivial cases (by case hash) within this shard.
    pub distinct_nontrivial: u64,
    /// Summed on merge.
    pub counters: BTreeMap<String, u64>,
    /// Max on merge.
    pub maxima: BTreeMap<String, u64>,
    /// Union on merge (small sets only).
    pub sets: BTreeMap<String, BTreeSet<String>>,
    pub samples: Vec<Value>,
    pub violations: Vec<Violation>,
    /// Reasons this shard could not decide (never a violation).
    pub inconclusive: Vec<String>,
    pub wall_s: f64,
    #[serde(skip)]
    pub hashes: HashSet<u64>,
}

impl Report {
    pub fn new(engine: &str, seed: u64, shard: u32) -> Self {
        Report {
            engine: engine.to_string(),
            seed,
            shard,
            ..Default::default()
        }
    }
    pub fn count(&mut self, key: &str) {
        self.add(key, 1);
    }
    pub fn add(&mut self, key: &str, n: u64) {
        if let Some(c) = self.counters.get_mut(key) {
            *c += n;
        } else {
            self.counters.insert(key.to_string(), n);
        }
    }
    pub fn max(&mut self, key: &str, v: u64) {
        let e = self.maxima.entry(key.to_string()).or_insert(0);
        if v > *e {
            *e = v;
        }
    }
    pub fn set(&mut self, key: &str, v: impl Into<String>) {
        self.sets.entry(key.to_string()).or_default().insert(v.into());
    }
    pub fn sample(&mut self, limit: usize, v: impl FnOnce() -> Value) {
        if self.samples.len() < limit {
            self.samples.push(v());
        }
    }
    /// Record a non-trivial case hash (distinct counting).
    pub fn nontrivial(&mut self, hash: u64) {
        self.hashes.insert(hash);
    }
    pub fn violation(&mut self, property: &str, kind: &str, detail: String, case: Value) {
        // Keep the report small: at most 20 witnesses per (property, kind).
        let n = self
            .violations
            .iter()
            .filter(|v| v.property == property && v.kind == kind)
            .count();
        self.add(&format!("violations.{property}.{kind}"), 1);
        if n < 20 {
            self.violations.push(Violation {
                property: property.to_string(),
                kind: kind.to_string(),
                detail,
                case,
            });
        }
    }
    pub fn finish(&mut self, t0: std::time::Instant) {
        self.distinct_nontrivial = self.hashes.len() as u64;
        self.wall_s = t0.elapsed().as_secs_f64();
    }
    /// Write the report JSON to `path` and the raw hashes to `path.hashes` (u64 LE).
    pub fn write(&self, path: &str) -> std::io::Result<()> {
        let mut raw = Vec::with_capacity(self.hashes.len() * 8);
        for h in &self.hashes {
            raw.extend_from_slice(&h.to_le_bytes());
        }
        std::fs::write(format!("{path}.hashes"), raw)?;
        let tmp = format!("{path}.tmp");
        std::fs::write(&tmp, serde_json::to_vec(self).expect("report serialises"))?;
        std::fs::rename(tmp, path)
    }
}

/// `vh count-hashes f1 f2 ...`: number of distinct u64 values in the given files.
pub fn count_distinct_hashes(files: &[String]) -> u64 {
    let mut all: Vec<u64> = Vec::new();
    for f in files {
        if let Ok(bytes) = std::fs::read(f) {
            for c in bytes.chunks_exact(8) {
                all.push(u64::from_le_bytes(c.try_into().unwrap()));
            }
        }
    }
    all.sort_unstable();
    all.dedup();
    all.len() as u64
}
