//! Reference model of the VM, written from `asm.yml`, the doc comments and the property
//! statements (DESIGN.md appendix A) — deliberately naive, sequential and independent of the
//! implementation's helpers. Three-valued: where the specification is silent the model says
//! `Unspec` and the case is not judged.

use crate::state::Views;
use essential_types::{solution::Solution, ContentAddress, Key, Word};
use essential_vm::asm::{self, Op, ToOpcode};
use serde::{Deserialize, Serialize};
use std::{collections::BTreeSet, sync::Arc};

pub const STACK_MAX: usize = 4096;
pub const MEM_MAX: usize = 10240;
pub const REPEAT_MAX: usize = 4096;

#[derive(Clone, Debug, PartialEq, Serialize, Deserialize)]
pub struct Slot {
    pub counter: Word,
    /// `Some(limit)` when counting up, `None` when counting down.
    pub up_limit: Option<Word>,
    /// Index of the first op of the body.
    pub idx: usize,
}

#[derive(Clone, Debug, PartialEq)]
pub struct Machine {
    pub pc: usize,
    pub stack: Vec<Word>,
    pub mem: Vec<Word>,
    pub parent: Option<Arc<Vec<Word>>>,
    pub rep: Vec<Slot>,
}

#[derive(Clone, Copy, Debug, PartialEq)]
pub enum Fail {
    /// The op must fail (reported at its own index).
    Err,
    /// Executing the op would exceed the gas limit; it must not be executed.
    OutOfGas,
    /// The specification does not say; do not judge this case.
    Unspec(&'static str),
}

#[derive(Clone, Copy, Debug, PartialEq)]
pub enum Flow {
    Next,
    Pc(usize),
    Halt,
    ComputeEnd,
}

type R<T> = Result<T, Fail>;

/// Per-op gas cost: a pure function of the op so that model and spy agree by construction.
#[derive(Clone, Debug, PartialEq, Serialize, Deserialize)]
pub enum CostFn {
    Const(u64),
    /// Cost by opcode byte (256 entries).
    Table(Vec<u64>),
}

impl CostFn {
    pub fn cost(&self, op: &Op) -> u64 {
        match self {
            CostFn::Const(c) => *c,
            CostFn::Table(t) => t[u8::from(op.to_opcode()) as usize],
        }
    }
    pub fn min_cost(&self) -> u64 {
        match self {
            CostFn::Const(c) => *c,
            CostFn::Table(t) => t.iter().copied().min().unwrap_or(0),
        }
    }
}

#[derive(Clone, Debug, PartialEq, Serialize)]
pub struct ExpectedRead {
    pub view: u8,
    pub contract: ContentAddress,
    pub key: Key,
    pub count: usize,
}

pub struct Env<'a> {
    pub ops: &'a [Op],
    pub solutions: &'a [Solution],
    pub index: usize,
    pub views: &'a Views,
    pub cost: &'a CostFn,
    pub limit: u64,
    /// Gas spent so far (exact).
    pub gas: u128,
    /// Ops executed so far, children included.
    pub executed: u64,
    /// Child VMs requested so far (sum of breadths).
    pub children: u64,
    /// State requests in sequential order.
    pub reads: Vec<ExpectedRead>,
    pub max_executed: u64,
    pub breadth_cap: Word,
    /// Set when the failure happened inside a compute child.
    pub failed_in_child: bool,
    /// The state error that made a state read fail (it must reach the caller unchanged).
    pub state_error: Option<String>,
    /// Gas total that the refused op would have brought the run to (set when out-of-gas strikes).
    pub oog_need: u128,
    /// Out-of-gas struck inside a compute child that exceeds the budget left at the fork on its own (not only together
    /// with its siblings): that child fails by itself, whatever the others do.
    pub child_alone_oog: bool,
}

impl<'a> Env<'a> {
    pub fn new(
        ops: &'a [Op],
        solutions: &'a [Solution],
        index: usize,
        views: &'a Views,
        cost: &'a CostFn,
        limit: u64,
    ) -> Self {
        Env {
            ops,
            solutions,
            index,
            views,
            cost,
            limit,
            gas: 0,
            executed: 0,
            children: 0,
            reads: vec![],
            max_executed: 200_000,
            breadth_cap: 10_000,
            failed_in_child: false,
            state_error: None,
            oog_need: 0,
            child_alone_oog: false,
        }
    }
    /// Charge for `op`; `OutOfGas` if the total would exceed the limit.
    pub fn charge(&mut self, op: &Op) -> R<()> {
        let next = self.gas + self.cost.cost(op) as u128;
        if next > self.limit as u128 {
            self.oog_need = next;
            return Err(Fail::OutOfGas);
        }
        if self.executed >= self.max_executed {
            return Err(Fail::Unspec("step-cap"));
        }
        self.gas = next;
        self.executed += 1;
        Ok(())
    }
    fn this(&self) -> &Solution {
        &self.solutions[self.index]
    }
}

// Own big-endian conversions (the `convert` module of the types crate is code under test).
pub fn word_4_from_u8_32(b: [u8; 32]) -> [Word; 4] {
    std::array::from_fn(|i| Word::from_be_bytes(b[8 * i..8 * i + 8].try_into().unwrap()))
}
pub fn word_8_from_u8_64(b: [u8; 64]) -> [Word; 8] {
    std::array::from_fn(|i| Word::from_be_bytes(b[8 * i..8 * i + 8].try_into().unwrap()))
}
pub fn u8_32_from_word_4(w: [Word; 4]) -> [u8; 32] {
    let mut out = [0u8; 32];
    for (i, x) in w.iter().enumerate() {
        out[8 * i..8 * i + 8].copy_from_slice(&x.to_be_bytes());
    }
    out
}
pub fn u8_64_from_word_8(w: [Word; 8]) -> [u8; 64] {
    let mut out = [0u8; 64];
    for (i, x) in w.iter().enumerate() {
        out[8 * i..8 * i + 8].copy_from_slice(&x.to_be_bytes());
    }
    out
}
fn bytes_from_word(w: Word) -> [u8; 8] {
    w.to_be_bytes()
}

fn us(w: Word) -> R<usize> {
    usize::try_from(w).map_err(|_| Fail::Err)
}

impl Machine {
    pub fn new(stack: Vec<Word>, mem: Vec<Word>) -> Self {
        Machine {
            pc: 0,
            stack,
            mem,
            parent: None,
            rep: vec![],
        }
    }
    fn pop(&mut self) -> R<Word> {
        self.stack.pop().ok_or(Fail::Err)
    }
    fn push(&mut self, w: Word) -> R<()> {
        if self.stack.len() >= STACK_MAX {
            return Err(Fail::Err);
        }
        self.stack.push(w);
        Ok(())
    }
    fn popn(&mut self, n: usize) -> R<Vec<Word>> {
        if n > self.stack.len() {
            return Err(Fail::Err);
        }
        let at = self.stack.len() - n;
        Ok(self.stack.split_off(at))
    }
    fn pushn(&mut self, ws: &[Word]) -> R<()> {
        if self.stack.len() + ws.len() > STACK_MAX {
            return Err(Fail::Err);
        }
        self.stack.extend_from_slice(ws);
        Ok(())
    }
    /// Binary op over mathematical integers; result must fit a word.
    fn bin(&mut self, f: impl FnOnce(i128, i128) -> Option<i128>) -> R<()> {
        let b = self.pop()?;
        let a = self.pop()?;
        let r = f(a as i128, b as i128).ok_or(Fail::Err)?;
        let r = Word::try_from(r).map_err(|_| Fail::Err)?;
        self.push(r)
    }
    fn shift(&mut self, f: impl FnOnce(Word, u32) -> Word) -> R<()> {
        let b = self.pop()?;
        let a = self.pop()?;
        if !(0..=63).contains(&b) {
            return Err(Fail::Err);
        }
        self.push(f(a, b as u32))
    }
}

/// Decode `[elem…, elem_len]*` into a set of word vectors.
fn decode_set(ws: &[Word]) -> R<BTreeSet<Vec<Word>>> {
    let mut set = BTreeSet::new();
    let mut rest = ws;
    while let Some((len, r)) = rest.split_last() {
        let len = us(*len)?;
        if len > r.len() {
            return Err(Fail::Err);
        }
        let (r2, elem) = r.split_at(r.len() - len);
        set.insert(elem.to_vec());
        rest = r2;
    }
    Ok(set)
}

/// Pop a byte length `L`, then ceil(L/8) words; return the first `L` big-endian bytes.
fn pop_bytes(m: &mut Machine) -> R<Vec<u8>> {
    let len = us(m.pop()?)?;
    let words = len / 8 + usize::from(len % 8 != 0);
    let ws = m.popn(words)?;
    let mut bytes: Vec<u8> = ws.iter().flat_map(|w| w.to_be_bytes()).collect();
    bytes.truncate(len);
    Ok(bytes)
}

/// SHA-256 pre-images of all solutions, as `PredicateExists` is documented.
pub fn predicate_exists_hashes(solutions: &[Solution]) -> BTreeSet<[u8; 32]> {
    use sha2::Digest;
    solutions
        .iter()
        .map(|s| {
            let mut bytes = vec![];
            for slot in &s.predicate_data {
                bytes.extend((slot.len() as Word).to_be_bytes());
                for w in slot {
                    bytes.extend(w.to_be_bytes());
                }
            }
            bytes.extend(s.predicate_to_solve.contract.0);
            bytes.extend(s.predicate_to_solve.predicate.0);
            let h: [u8; 32] = sha2::Sha256::digest(&bytes).into();
            h
        })
        .collect()
}

fn key_read(m: &mut Machine, env: &mut Env, post: bool, ext: bool) -> R<()> {
    let addr = us(m.pop()?)?;
    let n = us(m.pop()?)?;
    let klen = us(m.pop()?)?;
    let key = m.popn(klen)?;
    let contract = if ext {
        let w = m.popn(4)?;
        ContentAddress(u8_32_from_word_4([w[0], w[1], w[2], w[3]]))
    } else {
        env.this().predicate_to_solve.contract.clone()
    };
    let view = if post { &env.views.post } else { &env.views.pre };
    env.reads.push(ExpectedRead {
        view: post as u8,
        contract: contract.clone(),
        key: key.clone(),
        count: n,
    });
    let vals = match view.answer(&contract, &key, n) {
        Ok(v) => v,
        Err(e) => {
            env.state_error = Some(e);
            return Err(Fail::Err);
        }
    };
    if vals.is_empty() {
        if addr > m.mem.len() {
            return Err(Fail::Unspec("empty-read-oob-addr"));
        }
        return Ok(());
    }
    let total: usize = vals.len() * 2 + vals.iter().map(|v| v.len()).sum::<usize>();
    if addr.checked_add(total).map_or(true, |e| e > m.mem.len()) {
        return Err(Fail::Err);
    }
    let mut va = addr + vals.len() * 2;
    for (i, v) in vals.iter().enumerate() {
        m.mem[addr + 2 * i] = va as Word;
        m.mem[addr + 2 * i + 1] = v.len() as Word;
        m.mem[va..va + v.len()].copy_from_slice(v);
        va += v.len();
    }
    Ok(())
}

/// Execute one op (already charged for). On `Err` the machine may be partially modified.
pub fn step(m: &mut Machine, op: Op, env: &mut Env, depth: usize) -> R<Flow> {
    use asm::{
        Access as A, Alu, Compute as C, Crypto as Cr, Memory as Mem, ParentMemory as PM, Pred as P,
        Stack as S, StateRead as SR, TotalControlFlow as T,
    };
    match op {
        Op::Stack(s) => match s {
            S::Push(w) => m.push(w)?,
            S::Pop => {
                m.pop()?;
            }
            S::Dup => {
                let a = m.pop()?;
                m.push(a)?;
                m.push(a)?;
            }
            S::DupFrom => {
                let i = us(m.pop()?)?;
                if i >= m.stack.len() {
                    return Err(Fail::Err);
                }
                let w = m.stack[m.stack.len() - 1 - i];
                m.push(w)?;
            }
            S::Swap => {
                let b = m.pop()?;
                let a = m.pop()?;
                m.push(b)?;
                m.push(a)?;
            }
            S::SwapIndex => {
                let i = us(m.pop()?)?;
                if i >= m.stack.len() {
                    return Err(Fail::Err);
                }
                let top = m.stack.len() - 1;
                m.stack.swap(top, top - i);
            }
            S::Select => {
                let c = m.pop()?;
                let b = m.pop()?;
                let a = m.pop()?;
                match c {
                    0 => m.push(a)?,
                    1 => m.push(b)?,
                    _ => return Err(Fail::Err),
                }
            }
            S::SelectRange => {
                let c = m.pop()?;
                if c != 0 && c != 1 {
                    return Err(Fail::Err);
                }
                let len = us(m.pop()?)?;
                if len.checked_mul(2).map_or(true, |d| d > m.stack.len()) {
                    return Err(Fail::Err);
                }
                let b = m.popn(len)?;
                let a = m.popn(len)?;
                m.pushn(if c == 1 { &b } else { &a })?;
            }
            S::Repeat => {
                let up = m.pop()?;
                let n = m.pop()?;
                if up != 0 && up != 1 {
                    return Err(Fail::Err);
                }
                if m.rep.len() >= REPEAT_MAX {
                    return Err(Fail::Err);
                }
                m.rep.push(if up == 1 {
                    Slot {
                        counter: 0,
                        up_limit: Some(n),
                        idx: m.pc + 1,
                    }
                } else {
                    Slot {
                        counter: n,
                        up_limit: None,
                        idx: m.pc + 1,
                    }
                });
            }
            S::RepeatEnd => {
                let s = m.rep.last_mut().ok_or(Fail::Err)?;
                let done = match s.up_limit {
                    Some(l) => s.counter as i128 >= l as i128 - 1,
                    None => s.counter <= 1,
                };
                if done {
                    m.rep.pop();
                } else {
                    if s.up_limit.is_some() {
                        s.counter += 1
                    } else {
                        s.counter -= 1
                    }
                    return Ok(Flow::Pc(s.idx));
                }
            }
            S::Reserve => {
                let n = us(m.pop()?)?;
                let start = m.stack.len();
                if start.saturating_add(n) > STACK_MAX {
                    return Err(Fail::Err);
                }
                m.stack.resize(start + n, 0);
                m.push(start as Word)?;
            }
            S::Load => {
                let i = us(m.pop()?)?;
                let w = *m.stack.get(i).ok_or(Fail::Err)?;
                m.push(w)?;
            }
            S::Store => {
                let i = us(m.pop()?)?;
                let w = m.pop()?;
                *m.stack.get_mut(i).ok_or(Fail::Err)? = w;
            }
            S::Drop => {
                let n = us(m.pop()?)?;
                m.popn(n)?;
            }
        },
        Op::Pred(p) => match p {
            P::Eq => m.bin(|a, b| Some((a == b) as i128))?,
            P::Gt => m.bin(|a, b| Some((a > b) as i128))?,
            P::Lt => m.bin(|a, b| Some((a < b) as i128))?,
            P::Gte => m.bin(|a, b| Some((a >= b) as i128))?,
            P::Lte => m.bin(|a, b| Some((a <= b) as i128))?,
            P::And => m.bin(|a, b| Some((a != 0 && b != 0) as i128))?,
            P::Or => m.bin(|a, b| Some((a != 0 || b != 0) as i128))?,
            P::Not => {
                let a = m.pop()?;
                m.push((a == 0) as Word)?;
            }
            P::BitAnd => m.bin(|a, b| Some(a & b))?,
            P::BitOr => m.bin(|a, b| Some(a | b))?,
            P::EqRange => {
                let len = m.pop()?;
                if len == 0 {
                    m.push(1)?;
                } else {
                    let len = us(len)?;
                    if len.checked_mul(2).map_or(true, |d| d > m.stack.len()) {
                        return Err(Fail::Err);
                    }
                    let b = m.popn(len)?;
                    let a = m.popn(len)?;
                    m.push((a == b) as Word)?;
                }
            }
            P::EqSet => {
                let rl = us(m.pop()?)?;
                let r = m.popn(rl)?;
                let ll = us(m.pop()?)?;
                let l = m.popn(ll)?;
                let e = decode_set(&l)? == decode_set(&r)?;
                m.push(e as Word)?;
            }
        },
        Op::Alu(a) => match a {
            Alu::Add => m.bin(|a, b| Some(a + b))?,
            Alu::Sub => m.bin(|a, b| Some(a - b))?,
            Alu::Mul => m.bin(|a, b| Some(a * b))?,
            Alu::Div => m.bin(|a, b| if b == 0 { None } else { Some(a / b) })?,
            Alu::Mod => {
                let b = m.pop()?;
                let a = m.pop()?;
                if b == 0 {
                    return Err(Fail::Err);
                }
                if a == Word::MIN && b == -1 {
                    return Err(Fail::Unspec("mod-min-neg1"));
                }
                m.push((a as i128 % b as i128) as Word)?;
            }
            Alu::Shl => m.shift(|a, b| ((a as u64) << b) as Word)?,
            Alu::Shr => m.shift(|a, b| ((a as u64) >> b) as Word)?,
            Alu::ShrI => m.shift(|a, b| {
                // arithmetic shift = floor division by 2^b
                (a as i128).div_euclid(1i128 << b) as Word
            })?,
        },
        Op::Memory(mo) => match mo {
            Mem::Alloc => {
                let n = us(m.pop()?)?;
                let old = m.mem.len();
                if old.checked_add(n).map_or(true, |t| t > MEM_MAX) {
                    return Err(Fail::Err);
                }
                m.mem.resize(old + n, 0);
                m.push(old as Word)?;
            }
            Mem::Free => {
                let n = us(m.pop()?)?;
                if n > m.mem.len() {
                    return Err(Fail::Err);
                }
                m.mem.truncate(n);
            }
            Mem::Load => {
                let i = us(m.pop()?)?;
                let w = *m.mem.get(i).ok_or(Fail::Err)?;
                m.push(w)?;
            }
            Mem::Store => {
                let i = m.pop()?;
                let w = m.pop()?;
                let i = us(i)?;
                *m.mem.get_mut(i).ok_or(Fail::Err)? = w;
            }
            Mem::LoadRange => {
                let n = m.pop()?;
                let i = m.pop()?;
                let (i, n) = (us(i)?, us(n)?);
                let e = i.checked_add(n).ok_or(Fail::Err)?;
                if e > m.mem.len() {
                    return Err(Fail::Err);
                }
                let ws = m.mem[i..e].to_vec();
                m.pushn(&ws)?;
            }
            Mem::StoreRange => {
                let i = m.pop()?;
                let n = us(m.pop()?)?;
                let ws = m.popn(n)?;
                let i = us(i)?;
                let e = i.checked_add(n).ok_or(Fail::Err)?;
                if e > m.mem.len() {
                    return Err(Fail::Err);
                }
                m.mem[i..e].copy_from_slice(&ws);
            }
        },
        Op::ParentMemory(po) => {
            let pm = m.parent.clone().ok_or(Fail::Err)?;
            match po {
                PM::Load => {
                    let i = us(m.pop()?)?;
                    let w = *pm.get(i).ok_or(Fail::Err)?;
                    m.push(w)?;
                }
                PM::LoadRange => {
                    let n = m.pop()?;
                    let i = m.pop()?;
                    let (i, n) = (us(i)?, us(n)?);
                    let e = i.checked_add(n).ok_or(Fail::Err)?;
                    if e > pm.len() {
                        return Err(Fail::Err);
                    }
                    m.pushn(&pm[i..e])?;
                }
            }
        }
        Op::TotalControlFlow(t) => match t {
            T::Halt => return Ok(Flow::Halt),
            T::HaltIf => match m.pop()? {
                0 => {}
                1 => return Ok(Flow::Halt),
                _ => return Err(Fail::Err),
            },
            T::PanicIf => match m.pop()? {
                0 => {}
                _ => return Err(Fail::Err),
            },
            T::JumpIf => {
                let c = m.pop()?;
                let d = m.pop()?;
                match c {
                    0 => {
                        if d == 0 {
                            return Err(Fail::Unspec("jumpif-0-0"));
                        }
                    }
                    1 => {
                        if d == 0 {
                            return Err(Fail::Err);
                        }
                        let t = m.pc as i128 + d as i128;
                        if t < 0 || t > usize::MAX as i128 {
                            return Err(Fail::Err);
                        }
                        return Ok(Flow::Pc(t as usize));
                    }
                    _ => return Err(Fail::Err),
                }
            }
        },
        Op::Access(a) => match a {
            A::ThisAddress => {
                let w = word_4_from_u8_32(env.this().predicate_to_solve.predicate.0);
                m.pushn(&w)?;
            }
            A::ThisContractAddress => {
                let w = word_4_from_u8_32(env.this().predicate_to_solve.contract.0);
                m.pushn(&w)?;
            }
            A::RepeatCounter => {
                let c = m.rep.last().ok_or(Fail::Err)?.counter;
                m.push(c)?;
            }
            A::PredicateData => {
                let len = m.pop()?;
                let vi = m.pop()?;
                let si = m.pop()?;
                let (si, vi, len) = (us(si)?, us(vi)?, us(len)?);
                let slot = env.this().predicate_data.get(si).ok_or(Fail::Err)?;
                let e = vi.checked_add(len).ok_or(Fail::Err)?;
                if e > slot.len() {
                    return Err(Fail::Err);
                }
                let ws = slot[vi..e].to_vec();
                m.pushn(&ws)?;
            }
            A::PredicateDataLen => {
                let si = us(m.pop()?)?;
                let l = env.this().predicate_data.get(si).ok_or(Fail::Err)?.len();
                m.push(l as Word)?;
            }
            A::PredicateDataSlots => m.push(env.this().predicate_data.len() as Word)?,
            A::PredicateExists => {
                let w = m.popn(4)?;
                let h = u8_32_from_word_4([w[0], w[1], w[2], w[3]]);
                let found = predicate_exists_hashes(env.solutions).contains(&h);
                m.push(found as Word)?;
            }
        },
        Op::Crypto(c) => match c {
            Cr::Sha256 => {
                let bytes = pop_bytes(m)?;
                let h = essential_hash::hash_bytes(&bytes);
                m.pushn(&word_4_from_u8_32(h))?;
            }
            Cr::VerifyEd25519 => {
                use ed25519_dalek::Verifier;
                let k = m.popn(4)?;
                let s = m.popn(8)?;
                let data = pop_bytes(m)?;
                let key = ed25519_dalek::VerifyingKey::from_bytes(&u8_32_from_word_4([k[0], k[1], k[2], k[3]]))
                    .map_err(|_| Fail::Err)?;
                let sig = ed25519_dalek::Signature::from_bytes(&u8_64_from_word_8([
                    s[0], s[1], s[2], s[3], s[4], s[5], s[6], s[7],
                ]));
                m.push(key.verify(&data, &sig).is_ok() as Word)?;
            }
            Cr::RecoverSecp256k1 => {
                let id = m.pop()?;
                let s = m.popn(8)?;
                let h = m.popn(4)?;
                if !(0..=3).contains(&id) {
                    return Err(Fail::Err);
                }
                let sig = u8_64_from_word_8([s[0], s[1], s[2], s[3], s[4], s[5], s[6], s[7]]);
                let hash = u8_32_from_word_4([h[0], h[1], h[2], h[3]]);
                // Well-formed? (r and s must be valid scalars.)
                let rid = secp256k1::ecdsa::RecoveryId::try_from(id as i32).map_err(|_| Fail::Err)?;
                if secp256k1::ecdsa::RecoverableSignature::from_compact(&sig, rid).is_err() {
                    return Err(Fail::Err);
                }
                match essential_sign::recover_hash(hash, &essential_types::Signature(sig, id as u8)) {
                    Ok(pk) => {
                        let ser = pk.serialize();
                        let mut first = [0u8; 32];
                        first.copy_from_slice(&ser[..32]);
                        m.pushn(&word_4_from_u8_32(first))?;
                        m.push(ser[32] as Word)?;
                        // and the sign crate's own word encoding must agree with the documented one
                        let enc = essential_sign::encode::public_key(&pk);
                        if enc[..4] != word_4_from_u8_32(first) || enc[4] != ser[32] as Word {
                            return Err(Fail::Unspec("sign-encode-disagrees"));
                        }
                    }
                    Err(_) => m.pushn(&[0; 5])?,
                }
            }
        },
        Op::StateRead(s) => match s {
            SR::KeyRange => key_read(m, env, false, false)?,
            SR::KeyRangeExtern => key_read(m, env, false, true)?,
            SR::PostKeyRange => key_read(m, env, true, false)?,
            SR::PostKeyRangeExtern => key_read(m, env, true, true)?,
        },
        Op::Compute(c) => match c {
            C::ComputeEnd => {
                if depth == 0 {
                    return Err(Fail::Unspec("compute-end-at-top"));
                }
                return Ok(Flow::ComputeEnd);
            }
            C::Compute => {
                let n = m.pop()?;
                if n < 1 {
                    return Err(Fail::Err);
                }
                if depth >= 1 || m.parent.is_some() {
                    return Err(Fail::Err);
                }
                if n > env.breadth_cap {
                    return Err(Fail::Unspec("breadth-cap"));
                }
                env.children += n as u64;
                let gas_at_fork = env.gas;
                let parent = Arc::new(m.mem.clone());
                let mut maxpc = 0usize;
                let mut joined: Vec<Word> = vec![];
                let mut joined_len = 0usize;
                for i in 0..n {
                    let mut ch = Machine {
                        pc: m.pc + 1,
                        stack: m.stack.clone(),
                        mem: vec![],
                        parent: Some(parent.clone()),
                        rep: m.rep.clone(),
                    };
                    let gas_at_child = env.gas;
                    let r = ch.push(i).and_then(|_| run(&mut ch, env, 1));
                    if let Err(f) = r {
                        env.failed_in_child = true;
                        if f == Fail::OutOfGas {
                            env.child_alone_oog = gas_at_fork + (env.oog_need - gas_at_child) > env.limit as u128;
                        }
                        return Err(f);
                    }
                    maxpc = maxpc.max(ch.pc);
                    // Every child runs (and is charged for) before the join; only the words
                    // that can still fit are kept so that the model's own memory stays bounded.
                    joined_len += ch.mem.len();
                    if joined_len <= MEM_MAX {
                        joined.extend(ch.mem);
                    }
                }
                if maxpc <= m.pc {
                    return Err(Fail::Unspec("compute-no-progress"));
                }
                if m.mem.len() + joined_len > MEM_MAX {
                    return Err(Fail::Err);
                }
                m.mem.extend(joined);
                return Ok(Flow::Pc(maxpc));
            }
        },
    }
    Ok(Flow::Next)
}

/// Run until the program ends. On failure `m.pc` is the index of the failing op.
pub fn run(m: &mut Machine, env: &mut Env, depth: usize) -> R<()> {
    while let Some(op) = env.ops.get(m.pc).copied() {
        env.charge(&op)?;
        match step(m, op, env, depth)? {
            Flow::Next => m.pc += 1,
            Flow::Pc(p) => m.pc = p,
            Flow::Halt => break,
            Flow::ComputeEnd => {
                m.pc += 1;
                break;
            }
        }
    }
    Ok(())
}

/// `eval`: true/false exactly when the last word of the final stack is 1/0.
pub fn eval_result(stack: &[Word]) -> Option<bool> {
    match stack.last() {
        Some(1) => Some(true),
        Some(0) => Some(false),
        _ => None,
    }
}

pub fn words_to_bytes(ws: &[Word]) -> Vec<u8> {
    ws.iter().copied().flat_map(bytes_from_word).collect()
}
