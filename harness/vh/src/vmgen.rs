//! Workload generators for the VM engine: boundary alphabet, bounded-exhaustive short
//! programs, op × operand matrices, and a fragment grammar for long programs that mostly
//! succeed (so deep states are reached) with seeded operand/op mutations (so every error
//! path is frequent too).

use crate::{
    model::{CostFn, Slot},
    rng::Rng,
    state::{Script, ViewSpec},
    vmcase::VmCase,
};
use essential_types::{solution::Solution, ContentAddress, PredicateAddress, Word};
use essential_vm::asm::{self, short::*, Op};

/// Set under Miri: short programs, small breadths.
pub static TINY: std::sync::atomic::AtomicBool = std::sync::atomic::AtomicBool::new(false);

fn tiny() -> bool {
    TINY.load(std::sync::atomic::Ordering::Relaxed)
}

pub const ALPHA: &[Word] = &[
    i64::MIN,
    i64::MIN + 1,
    -4097,
    -2,
    -1,
    0,
    1,
    2,
    3,
    7,
    8,
    9,
    62,
    63,
    64,
    65,
    4095,
    4096,
    4097,
    5120,
    5121,
    10239,
    10240,
    10241,
    1 << 31,
    1 << 32,
    1 << 62,
    i64::MAX - 1,
    i64::MAX,
];

/// Smaller alphabet for triples.
pub const ALPHA_S: &[Word] = &[i64::MIN, -1, 0, 1, 2, 3, 63, 64, 4096, i64::MAX];

/// All ops without an immediate, in opcode order.
pub fn plain_ops() -> Vec<Op> {
    (0u8..=255)
        .filter_map(|b| match asm::from_bytes([b]).next() {
            Some(Ok(op)) => Some(op),
            _ => None,
        })
        .collect()
}

pub fn word(r: &mut Rng) -> Word {
    match r.below(10) {
        0..=5 => r.range(-2, 10),
        6..=7 => *r.pick(ALPHA),
        8 => r.range(-70, 70),
        _ => r.word(),
    }
}

pub fn small(r: &mut Rng) -> Word {
    if r.chance(0.9) {
        r.range(-1, 9)
    } else {
        *r.pick(ALPHA)
    }
}

pub fn contract_a() -> ContentAddress {
    ContentAddress([0x33; 32])
}
pub fn contract_b() -> ContentAddress {
    let mut a = [0x44; 32];
    a[31] = 0x45;
    ContentAddress(a)
}

pub fn default_solutions(r: &mut Rng) -> (Vec<Solution>, usize) {
    let n = 1 + r.below(3);
    let mut sols = vec![];
    for i in 0..n {
        let mut pred = [0x50u8; 32];
        pred[0] = i as u8;
        pred[31] = r.below(256) as u8;
        let slots = r.below(4);
        let predicate_data = (0..slots)
            .map(|s| {
                // mostly short slots, now and then a long one (up to the validator's limit of 10000 words)
                let len = if !tiny() && r.chance(0.03) { *r.pick(&[100usize, 1000, 4000, 10_000]) } else { [0usize, 1, 3, 8][r.below(4)] };
                (0..len).map(|j| 100 * (i as i64 + 1) + 10 * s as i64 + j as i64).collect()
            })
            .collect();
        sols.push(Solution {
            predicate_to_solve: PredicateAddress {
                contract: if i == 0 { contract_a() } else { contract_b() },
                predicate: ContentAddress(pred),
            },
            predicate_data,
            state_mutations: vec![],
        });
    }
    // several solutions may solve the same predicate with different (or the same) data
    for i in 1..n {
        if r.chance(0.3) {
            let j = r.below(i);
            sols[i].predicate_to_solve = sols[j].predicate_to_solve.clone();
            if r.chance(0.2) {
                sols[i].predicate_data = sols[j].predicate_data.clone();
            }
        }
    }
    let ix = r.below(n);
    (sols, ix)
}

/// Pre and post views with *different* contents so that a mis-routed read is visible.
pub fn default_views(r: &mut Rng) -> (ViewSpec, ViewSpec) {
    let mut pre = vec![];
    let mut post = vec![];
    for c in [contract_a(), contract_b()] {
        for k in 0..5i64 {
            if r.chance(0.8) {
                pre.push((c.clone(), vec![k], (0..(k % 3 + 1)).map(|j| 1000 + 10 * k + j).collect()));
            }
            if r.chance(0.8) {
                post.push((c.clone(), vec![k], (0..((k + 1) % 3 + 1)).map(|j| 2000 + 10 * k + j).collect()));
            }
            pre.push((c.clone(), vec![k, k], vec![3000 + k]));
            post.push((c.clone(), vec![k, k], vec![4000 + k, 1]));
        }
        pre.push((c.clone(), vec![], vec![9, 9]));
        post.push((c.clone(), vec![], vec![8]));
        pre.push((c.clone(), vec![i64::MAX], vec![77]));
        post.push((c.clone(), vec![0, i64::MAX], vec![78]));
        post.push((c.clone(), vec![1, i64::MIN], vec![79]));
    }
    // now and then one key of one view fails (a state error in the middle of a range)
    let (mut ppre, mut ppost) = (vec![], vec![]);
    if r.chance(0.04) {
        let c = if r.chance(0.5) { contract_a() } else { contract_b() };
        let k = vec![r.range(0, 6)];
        if r.chance(0.5) {
            ppre.push((c, k));
        } else {
            ppost.push((c, k));
        }
    }
    (
        ViewSpec { entries: pre, script: Script::Range, poison: ppre },
        ViewSpec { entries: post, script: Script::Range, poison: ppost },
    )
}

pub fn base_case(r: &mut Rng) -> VmCase {
    let (solutions, index) = default_solutions(r);
    let (pre, post) = default_views(r);
    VmCase {
        ops: String::new(),
        stack: vec![],
        memory: vec![],
        parent_memory: None,
        repeat: vec![],
        pc: 0,
        solutions,
        index,
        pre,
        post,
        cost: CostFn::Const(1),
        limit: u64::MAX,
        pool: 0,
        delay_seed: 0,
    }
}

fn fill(r: &mut Rng, n: usize) -> Vec<Word> {
    (0..n).map(|_| small(r)).collect()
}

/// Initial machine states at and around the limits.
pub fn boundary_state(r: &mut Rng, case: &mut VmCase, which: usize) {
    let (s, m) = match which % 12 {
        0 => (0, 0),
        1 => (3, 4),
        2 => (1, 0),
        3 => (2, 1),
        4 => (4095, 0),
        5 => (4096, 0),
        6 => (4094, 5),
        7 => (3, 10239),
        8 => (3, 10240),
        9 => (6, 10238),
        10 => (4093, 10237),
        _ => (8, 16),
    };
    case.stack = fill(r, s);
    case.memory = fill(r, m);
}

// ---------------------------------------------------------------------------------------
// Fragment grammar

pub struct Gen<'a> {
    pub r: &'a mut Rng,
    pub ops: Vec<Op>,
    /// Estimated stack height / memory length assuming everything so far succeeded.
    pub h: i64,
    pub ml: i64,
    pub in_child: bool,
    pub loops: usize,
    /// Probability that a fragment is mutated (boundary operand / random op inserted).
    pub p_mut: f64,
    pub sols: &'a [Solution],
    pub index: usize,
    pub allow_compute: bool,
    pub allow_crypto: bool,
    pub budget: usize,
}

fn push(w: Word) -> Op {
    PUSH(w)
}

/// Mid-range sizes: around powers of two and other places where a chunked / batched fast path could switch.
pub const MID: &[Word] = &[15, 16, 17, 31, 32, 33, 63, 64, 65, 100, 127, 128, 129, 255, 256, 257, 511, 512, 513, 1000, 1023, 1024, 1025, 2047, 2048, 2049, 4000];

impl<'a> Gen<'a> {
    fn emit(&mut self, op: Op) {
        self.ops.push(op);
    }
    /// A size / count / length: mostly small (`0..small`), now and then mid-range (at most `cap`).
    fn size(&mut self, small: Word, cap: Word) -> Word {
        if !tiny() && self.r.chance(0.07) {
            // any size up to the cap now and then (a threshold need not sit at a power of two)
            if cap > 16 && self.r.chance(0.3) {
                return self.r.range(15, cap + 1);
            }
            let c: Vec<Word> = MID.iter().copied().filter(|m| *m <= cap).collect();
            if !c.is_empty() {
                return *self.r.pick(&c);
            }
        }
        self.r.range(0, small.max(1))
    }
    fn pushw(&mut self, w: Word) {
        let w = if self.r.chance(self.p_mut * 0.3) { *self.r.pick(ALPHA) } else { w };
        self.emit(push(w));
        self.h += 1;
    }
    fn ensure(&mut self, n: i64) {
        while self.h < n {
            let w = small(self.r);
            self.pushw(w);
        }
    }

    pub fn fragment(&mut self) {
        if self.r.chance(self.p_mut * 0.5) {
            // raw random op: error-path fodder
            let ops = plain_ops();
            let op = *self.r.pick(&ops);
            if !matches!(op, Op::Compute(_)) || self.allow_compute {
                self.emit(op);
            }
            return;
        }
        match self.r.below(30) {
            0..=2 => {
                let w = word(self.r);
                self.pushw(w)
            }
            3..=5 => self.alu(),
            6..=7 => self.pred(),
            8..=10 => self.stack_op(),
            11..=13 => self.memory_op(),
            14 => self.eq_range(),
            15 => self.eq_set(),
            16..=17 => self.repeat_loop(),
            18 => self.forward_jump(),
            19 => self.backward_jump(),
            20 => self.halts(),
            21..=22 => self.access(),
            23..=24 => self.state_read(),
            25..=26 => {
                if self.allow_compute && !self.in_child {
                    self.compute()
                } else {
                    self.alu()
                }
            }
            27 => {
                if self.allow_crypto {
                    self.crypto()
                } else {
                    self.pred()
                }
            }
            28 => {
                if self.in_child {
                    self.parent_memory()
                } else {
                    self.memory_op()
                }
            }
            _ => {
                if self.h > 0 {
                    self.emit(POP);
                    self.h -= 1;
                }
            }
        }
    }

    fn alu(&mut self) {
        let (a, b) = (word(self.r), word(self.r));
        let op = *self.r.pick(&[ADD, SUB, MUL, DIV, MOD, SHL, SHR, SHRI]);
        let (a, b) = match op {
            o if o == SHL || o == SHR || o == SHRI => (a, if self.r.chance(0.85) { self.r.range(0, 64) } else { b }),
            o if o == MUL => (if self.r.chance(0.7) { self.r.range(-1000, 1000) } else { a }, b),
            _ => (a, b),
        };
        self.pushw(a);
        self.pushw(b);
        self.emit(op);
        self.h -= 1;
    }

    fn pred(&mut self) {
        let op = *self.r.pick(&[EQ, GT, LT, GTE, LTE, AND, OR, BAND, BOR, NOT]);
        let a = small(self.r);
        let b = if self.r.chance(0.3) { a } else { word(self.r) };
        if op == NOT {
            self.pushw(a);
            self.emit(NOT);
        } else {
            self.pushw(a);
            self.pushw(b);
            self.emit(op);
            self.h -= 1;
        }
    }

    fn stack_op(&mut self) {
        match self.r.below(11) {
            0 => {
                self.ensure(1);
                self.emit(DUP);
                self.h += 1;
            }
            1 => {
                self.ensure(2);
                self.emit(SWAP);
            }
            2 => {
                let deep = self.size(1, 2100);
                self.ensure(1 + deep.min(4000 - self.h.min(4000)).max(0));
                let i = if deep > 1 { deep.min(self.h - 1) } else { self.r.range(0, self.h.max(1)) };
                self.pushw(i);
                self.emit(DUPF);
            }
            3 => {
                let deep = self.size(1, 2100);
                self.ensure(2 + deep.min(4000 - self.h.min(4000)).max(0));
                let i = if deep > 1 { deep.min(self.h - 1) } else { self.r.range(0, self.h.max(1)) };
                self.pushw(i);
                self.emit(SWAPI);
                self.h -= 1;
            }
            4 => {
                let (a, b) = (word(self.r), word(self.r));
                self.pushw(a);
                self.pushw(b);
                let c = self.r.range(0, 2);
                self.pushw(c);
                self.emit(SEL);
                self.h -= 2;
            }
            5 => {
                let len = self.size(5, (4000 - self.h.min(4000)) / 2);
                for _ in 0..2 * len {
                    let w = small(self.r);
                    self.pushw(w);
                }
                self.pushw(len);
                let c = self.r.range(0, 2);
                self.pushw(c);
                self.emit(SLTR);
                self.h -= 2 + len;
            }
            6 => {
                let n = self.size(6, 4000 - self.h.min(4000));
                self.pushw(n);
                self.emit(RES);
                self.h += n;
            }
            7 => {
                self.ensure(1);
                let i = self.r.range(0, self.h.max(1));
                self.pushw(i);
                self.emit(LODS);
            }
            8 => {
                self.ensure(1);
                let w = word(self.r);
                self.pushw(w);
                let i = self.r.range(0, (self.h - 1).max(1));
                self.pushw(i);
                self.emit(STOS);
                self.h -= 2;
            }
            9 => {
                let n = if self.h > 40 && self.r.chance(0.3) { self.r.range(0, self.h + 1) } else { self.r.range(0, (self.h + 1).min(4)) };
                self.pushw(n);
                self.emit(DROP);
                self.h -= 1 + n;
            }
            _ => {
                self.ensure(1);
                self.emit(POP);
                self.h -= 1;
            }
        }
        if self.h < 0 {
            self.h = 0;
        }
    }

    fn alloc(&mut self, n: i64) {
        self.pushw(n);
        self.emit(ALOC);
        self.ml += n.max(0);
    }

    fn memory_op(&mut self) {
        if self.ml <= 0 || self.r.chance(0.25) {
            let n = if self.r.chance(0.9) { self.size(9, 10240 - self.ml.min(10240)) } else { self.r.range(0, 3000) };
            self.alloc(n);
            if self.r.chance(0.5) {
                self.emit(POP);
                self.h -= 1;
            }
            return;
        }
        let ml = self.ml.max(1);
        match self.r.below(6) {
            0 => {
                let w = word(self.r);
                self.pushw(w);
                let i = self.r.range(0, ml);
                self.pushw(i);
                self.emit(STO);
                self.h -= 2;
            }
            1 => {
                let i = self.r.range(0, ml);
                self.pushw(i);
                self.emit(LOD);
            }
            2 => {
                let i = self.r.range(0, ml);
                let n = self.size((ml - i + 1).min(6), (ml - i).min(4000 - self.h.min(4000)));
                self.pushw(i);
                self.pushw(n);
                self.emit(LODR);
                self.h += n - 1;
            }
            3 => {
                let i = self.r.range(0, ml);
                let n = self.size((ml - i + 1).min(6), (ml - i).min(4000 - self.h.min(4000)));
                for _ in 0..n {
                    let w = word(self.r);
                    self.pushw(w);
                }
                self.pushw(n);
                self.pushw(i);
                self.emit(STOR);
                self.h -= n + 2;
            }
            4 => {
                let n = self.r.range(0, ml + 1);
                self.pushw(n);
                self.emit(FREE);
                self.h -= 1;
                self.ml = n;
            }
            _ => {
                let n = self.r.range(0, 5);
                self.alloc(n);
            }
        }
    }

    fn parent_memory(&mut self) {
        let i = self.r.range(0, 6);
        self.pushw(i);
        if self.r.chance(0.5) {
            self.emit(LODP);
        } else {
            let n = self.r.range(0, 4);
            self.pushw(n);
            self.emit(LODPR);
            self.h += n - 1;
        }
    }

    fn eq_range(&mut self) {
        let len = self.size(5, (4000 - self.h.min(4000)) / 2);
        let a: Vec<Word> = (0..len).map(|_| small(self.r)).collect();
        let mut b = a.clone();
        if len > 0 && self.r.chance(0.4) {
            let i = self.r.below(len as usize);
            b[i] = b[i].wrapping_add(1);
        }
        for w in a.into_iter().chain(b) {
            self.pushw(w);
        }
        self.pushw(len);
        self.emit(EQRA);
        if len > 0 {
            self.h -= 2 * len;
        }
    }

    fn push_set(&mut self, elems: &[Vec<Word>]) {
        let mut total = 0;
        for e in elems {
            for w in e {
                self.pushw(*w);
            }
            self.pushw(e.len() as Word);
            total += e.len() as Word + 1;
        }
        self.pushw(total);
    }

    fn eq_set(&mut self) {
        // mostly tiny sets; now and then dozens of elements (distinct values, so that repeats are deliberate)
        let big = !tiny() && self.r.chance(0.08);
        let n = if big { 15 + self.r.below(50) } else { self.r.below(4) };
        let a: Vec<Vec<Word>> = (0..n)
            .map(|i| if big { vec![i as Word, self.r.range(0, 4)] } else { (0..self.r.below(3)).map(|_| self.r.range(0, 4)).collect() })
            .collect();
        let mut b = a.clone();
        match self.r.below(4) {
            0 => self.r.shuffle(&mut b),
            1 => {
                // a repeated element: the same set, more list entries (sometimes replacing another element:
                // same number of entries, different set)
                if !b.is_empty() {
                    let x = b[self.r.below(b.len())].clone();
                    if b.len() >= 2 && self.r.chance(0.4) {
                        let j = self.r.below(b.len());
                        b[j] = x;
                    } else {
                        b.push(x);
                    }
                }
            }
            2 => {
                if !b.is_empty() {
                    let i = self.r.below(b.len());
                    b[i].push(5);
                }
            }
            _ => {}
        }
        let h0 = self.h;
        // either operand order (which list carries the repeat matters to an asymmetric implementation)
        if self.r.chance(0.5) {
            self.push_set(&a);
            self.push_set(&b);
        } else {
            self.push_set(&b);
            self.push_set(&a);
        }
        self.emit(EQST);
        self.h = h0 + 1;
    }

    fn body(&mut self, n: usize) {
        for _ in 0..n {
            if self.ops.len() >= self.budget {
                break;
            }
            self.fragment();
        }
    }

    fn repeat_loop(&mut self) {
        if self.loops >= 3 {
            return self.alu();
        }
        let n = *self.r.pick(&[-1, 0, 1, 2, 2, 3, 3, 5, 17]);
        let dir = self.r.range(0, 2);
        self.pushw(n);
        self.pushw(dir);
        self.emit(REP);
        self.h -= 2;
        self.loops += 1;
        // stack-neutral body so that the height estimate stays valid over iterations
        let h0 = self.h;
        let k = self.r.below(4);
        for _ in 0..k {
            match self.r.below(6) {
                0 => {
                    self.emit(REPC);
                    self.h += 1;
                    if self.ml > 0 {
                        // accumulate the counter in memory[0]
                        self.emit(push(0));
                        self.emit(LOD);
                        self.emit(ADD);
                        self.emit(push(0));
                        self.emit(STO);
                        self.h -= 1;
                    } else {
                        self.emit(POP);
                        self.h -= 1;
                    }
                }
                1 => self.alu(),
                2 => self.pred(),
                3 => {
                    if self.loops < 3 {
                        self.repeat_loop()
                    }
                }
                4 if self.allow_compute && !self.in_child && self.r.chance(0.5) => self.compute(),
                5 if self.r.chance(0.15) => {
                    // leave the program from inside the loop at one particular counter value
                    let k = self.r.range(0, 4);
                    self.emit(REPC);
                    self.emit(push(k));
                    self.emit(EQ);
                    self.emit(HLTIF);
                }
                _ => self.memory_store_only(),
            }
            while self.h > h0 {
                self.emit(POP);
                self.h -= 1;
            }
        }
        self.emit(REPE);
        self.loops -= 1;
    }

    fn memory_store_only(&mut self) {
        if self.ml > 0 {
            let w = word(self.r);
            self.pushw(w);
            let i = self.r.range(0, self.ml);
            self.pushw(i);
            self.emit(STO);
            self.h -= 2;
        }
    }

    fn forward_jump(&mut self) {
        // skip over k stack-neutral ops
        let k = self.r.below(4) as i64;
        let cond = self.r.range(0, 2);
        let dist = if self.r.chance(0.85) { k + 1 } else { *self.r.pick(&[0, -1, 1, 2, 1000, i64::MAX, i64::MIN]) };
        self.pushw(dist);
        self.pushw(cond);
        self.emit(JMPIF);
        self.h -= 2;
        for _ in 0..k {
            // neutral filler: PUSH;POP would be two ops, use NOT on an ensured word
            self.ensure(1);
            self.emit(NOT);
        }
    }

    fn backward_jump(&mut self) {
        // countdown loop: PUSH n; L: [filler]; PUSH 1; SUB; DUP; PUSH 0; GT; PUSH -d; SWAP; JMPIF; POP
        let n = self.r.range(1, 5);
        self.pushw(n);
        let start = self.ops.len();
        let filler = self.r.below(8);
        for _ in 0..filler {
            self.emit(DUP);
            self.emit(POP);
        }
        self.emit(push(1));
        self.emit(SUB);
        self.emit(DUP);
        self.emit(push(0));
        self.emit(GT);
        let d = (self.ops.len() + 2 - start) as i64;
        self.emit(push(-d));
        self.emit(SWAP);
        self.emit(JMPIF);
        self.emit(POP);
        self.h -= 1;
    }

    fn halts(&mut self) {
        match self.r.below(6) {
            0 => {
                let c = if self.r.chance(0.9) { 0 } else { self.r.range(-1, 3) };
                self.pushw(c);
                self.emit(HLTIF);
                self.h -= 1;
            }
            1 => {
                let c = if self.r.chance(0.95) { 0 } else { self.r.range(-1, 3) };
                self.pushw(c);
                self.emit(PNCIF);
                self.h -= 1;
            }
            2 => {
                if self.r.chance(0.15) {
                    self.emit(HLT)
                }
            }
            3 => {
                if self.loops > 0 {
                    self.emit(REPC);
                    self.h += 1;
                } else if self.r.chance(0.1) {
                    self.emit(REPC)
                }
            }
            _ => {
                if self.r.chance(0.05) {
                    self.emit(REPE)
                }
            }
        }
    }

    fn access(&mut self) {
        let data = &self.sols[self.index].predicate_data;
        match self.r.below(7) {
            0 => {
                self.emit(THIS);
                self.h += 4;
            }
            1 => {
                self.emit(THISC);
                self.h += 4;
            }
            2 => {
                self.emit(DSLT);
                self.h += 1;
            }
            3 => {
                let s = if data.is_empty() { 0 } else { self.r.below(data.len() + 1) as i64 };
                self.pushw(s);
                self.emit(DLEN);
            }
            4 | 5 => {
                let s = if data.is_empty() { 0 } else { self.r.below(data.len()) };
                let len = data.get(s).map(|v| v.len()).unwrap_or(0) as i64;
                let i = self.r.range(0, len + 1);
                let n = self.r.range(0, (len - i + 2).min(4000 - self.h.min(4000)).max(1));
                self.pushw(s as i64);
                self.pushw(i);
                self.pushw(n);
                self.emit(DATA);
                self.h += n - 3;
            }
            _ => {
                // PredicateExists: a genuine hash or a random one
                let hashes: Vec<[u8; 32]> = crate::model::predicate_exists_hashes(self.sols).into_iter().collect();
                let mut h = *self.r.pick(&hashes);
                if self.r.chance(0.5) {
                    h[self.r.below(32)] ^= 1 << self.r.below(8);
                }
                for w in crate::model::word_4_from_u8_32(h) {
                    self.emit(push(w));
                }
                self.emit(PEX);
                self.h += 1;
            }
        }
    }

    fn state_read(&mut self) {
        // make room: alloc `need` words, remember the address (old length)
        let klen = if self.r.chance(0.03) { self.size(3, 1000) } else { *self.r.pick(&[0i64, 1, 1, 1, 2, 2, 3]) };
        let n = if self.r.chance(0.05) { self.size(5, 1200) } else { *self.r.pick(&[0i64, 1, 1, 2, 3, 5]) };
        let need = n * 2 + n * 3 + self.r.range(0, 3);
        let addr = self.ml;
        self.alloc(need);
        self.emit(POP);
        self.h -= 1;
        let ext = self.r.chance(0.4);
        let post = self.r.chance(0.5);
        if ext {
            let c = if self.r.chance(0.5) { crate::vmgen::contract_a() } else { crate::vmgen::contract_b() };
            for w in crate::model::word_4_from_u8_32(c.0) {
                self.emit(push(w));
            }
        }
        let key: Vec<Word> = match klen {
            0 => vec![],
            1 => vec![if self.r.chance(0.1) { i64::MAX } else { self.r.range(0, 6) }],
            2 => match self.r.below(4) {
                0 => vec![0, i64::MAX],
                1 => vec![1, i64::MIN],
                _ => {
                    let k = self.r.range(0, 5);
                    vec![k, k]
                }
            },
            _ => (0..klen).map(|_| self.r.range(0, 3)).collect(),
        };
        for w in key {
            self.emit(push(w));
        }
        self.pushw(klen);
        self.pushw(n);
        let a = if self.r.chance(0.9) { addr } else { self.r.range(0, self.ml + 2) };
        self.pushw(a);
        self.h -= 3;
        self.emit(match (post, ext) {
            (false, false) => KRNG,
            (false, true) => KREX,
            (true, false) => PKRNG,
            (true, true) => PKREX,
        });
    }

    fn crypto(&mut self) {
        match self.r.below(4) {
            0 | 1 => {
                let len = if self.r.chance(0.1) { 8 * self.size(5, 1000) + self.r.range(0, 8) } else { self.r.range(0, 40) };
                let words = (len + 7) / 8;
                for _ in 0..words {
                    let w = self.r.word();
                    self.emit(push(w));
                }
                self.pushw(len);
                self.emit(SHA2);
                self.h += 3;
            }
            2 => {
                // ed25519: genuine signature, sometimes corrupted
                use ed25519_dalek::Signer;
                let sk = ed25519_dalek::SigningKey::from_bytes(&self.r.bytes32());
                let len = if !tiny() && self.r.chance(0.05) { 8 * self.size(5, 1000) as usize + self.r.below(8) } else { self.r.below(30) };
                let mut msg = self.r.bytes(len);
                let sig = sk.sign(&msg).to_bytes();
                let mut key = sk.verifying_key().to_bytes();
                let mut sig = sig;
                match self.r.below(5) {
                    0 => {
                        if !msg.is_empty() {
                            msg[0] ^= 1
                        }
                    }
                    1 => sig[self.r.below(64)] ^= 1,
                    2 => key[self.r.below(32)] ^= 1,
                    _ => {}
                }
                let mut padded = msg.clone();
                while padded.len() % 8 != 0 {
                    padded.push(self.r.below(256) as u8);
                }
                for c in padded.chunks(8) {
                    self.emit(push(Word::from_be_bytes(c.try_into().unwrap())));
                }
                self.emit(push(len as Word));
                for w in crate::model::word_8_from_u8_64(sig) {
                    self.emit(push(w));
                }
                for w in crate::model::word_4_from_u8_32(key) {
                    self.emit(push(w));
                }
                self.emit(VRFYED);
                self.h += 1;
            }
            _ => {
                let secp = secp256k1::Secp256k1::new();
                let sk = loop {
                    if let Ok(sk) = secp256k1::SecretKey::from_slice(&self.r.bytes32()) {
                        break sk;
                    }
                };
                let mut hash = self.r.bytes32();
                let msg = secp256k1::Message::from_digest(hash);
                let (rid, mut sig) = secp.sign_ecdsa_recoverable(&msg, &sk).serialize_compact();
                let mut id = i32::from(rid) as i64;
                match self.r.below(6) {
                    0 => hash[0] ^= 1,
                    1 => sig[self.r.below(64)] ^= 1,
                    2 => id = self.r.range(-1, 6),
                    3 => sig = [0xff; 64],
                    _ => {}
                }
                for w in crate::model::word_4_from_u8_32(hash) {
                    self.emit(push(w));
                }
                for w in crate::model::word_8_from_u8_64(sig) {
                    self.emit(push(w));
                }
                self.emit(push(id));
                self.emit(RSECP);
                self.h += 5;
            }
        }
    }

    fn compute(&mut self) {
        let n = *self.r.pick(&[-1i64, 0, 1, 1, 2, 2, 3, 3, 4, 5, 8, 16, 33, 64]);
        let n = if self.r.chance(0.02) { *self.r.pick(&[200, 1000, 3000, 3000, 4097, 9999, 10000]) } else { n };
        let n = if tiny() { n.clamp(-1, 3) } else { n };
        if self.r.chance(0.5) {
            // make sure the children inherit at least one word they can consume
            let w = self.r.range(100, 200);
            self.pushw(w);
        }
        self.pushw(n);
        self.emit(COM);
        self.h -= 1;
        // child: the index is on top of the stack
        let (h0, ml0, ops0) = (self.h, self.ml, self.ops.len());
        self.in_child = true;
        self.h += 1;
        self.ml = 0;
        let k = self.r.below(6);
        for _ in 0..k {
            match self.r.below(17) {
                12 => {
                    // large indices halt early: an early child is the one that gets furthest
                    self.emit(DUP);
                    let t = self.r.range(1, 4);
                    self.emit(push(t));
                    self.emit(GTE);
                    self.emit(HLTIF);
                }
                13 => {
                    // odd indices stop at an early ComputeEnd, even ones skip it
                    self.emit(DUP);
                    self.emit(push(1));
                    self.emit(BAND);
                    self.emit(NOT);
                    self.emit(push(2));
                    self.emit(SWAP);
                    self.emit(JMPIF);
                    self.emit(COME);
                    self.emit(push(1));
                    self.emit(ALOC);
                    self.emit(POP);
                    self.ml += 1;
                }
                14 => {
                    // consume an inherited word and record it (the child stack is a private copy)
                    if self.h >= 2 {
                        self.emit(POP);
                        self.emit(push(1));
                        self.emit(ALOC);
                        self.emit(STO);
                        self.emit(push(7));
                        self.ml += 1;
                    }
                }
                15 => {
                    // overwrite the bottom word of the inherited stack
                    if self.h >= 2 {
                        self.emit(DUP);
                        self.emit(push(0));
                        self.emit(STOS);
                        self.emit(push(0));
                        self.emit(LODS);
                        self.emit(push(1));
                        self.emit(ALOC);
                        self.emit(STO);
                        self.ml += 1;
                    }
                }
                16 => {
                    // the parent's loop counter is visible in the child
                    self.emit(REPC);
                    self.emit(push(1));
                    self.emit(ALOC);
                    self.emit(STO);
                    self.ml += 1;
                }
                0 => {
                    // index-dependent allocation
                    self.emit(DUP);
                    self.emit(ALOC);
                    self.emit(POP);
                    self.ml += 1;
                }
                1 => {
                    // write the index into fresh memory
                    self.emit(push(1));
                    self.emit(ALOC);
                    self.emit(POP);
                    self.emit(DUP);
                    self.emit(push(self.ml));
                    self.emit(STO);
                    self.ml += 1;
                }
                2 => self.parent_memory(),
                3 => {
                    // halt for small indices
                    self.emit(DUP);
                    let t = self.r.range(0, 3);
                    self.emit(push(t));
                    self.emit(LT);
                    self.emit(HLTIF);
                }
                4 => {
                    // index-dependent forward jump over two ops
                    self.emit(DUP);
                    self.emit(push(1));
                    self.emit(BAND);
                    self.emit(push(3));
                    self.emit(SWAP);
                    self.emit(JMPIF);
                    self.emit(push(1));
                    self.emit(ALOC);
                    self.ml += 1;
                    self.emit(POP);
                }
                5 => {
                    // fail in one child
                    self.emit(DUP);
                    let t = self.r.range(0, 8);
                    self.emit(push(t));
                    self.emit(EQ);
                    self.emit(PNCIF);
                }
                6 => {
                    if self.r.chance(0.3) {
                        self.emit(push(2));
                        self.emit(COM)
                    }
                }
                7 => self.state_read(),
                8 => self.alu(),
                9 => self.memory_op(),
                10 => {
                    if self.loops > 0 && self.r.chance(0.3) {
                        self.emit(REPE)
                    } else {
                        self.emit(REPC);
                        self.emit(POP)
                    }
                }
                _ => self.fragment(),
            }
        }
        if self.r.chance(0.9) {
            self.emit(COME);
        }
        let _ = ops0;
        self.in_child = false;
        self.h = h0;
        self.ml = ml0 + 2; // unknown growth; keep a small positive estimate
    }
}

#[derive(Clone, Copy, Debug, PartialEq)]
pub enum Focus {
    General,
    Control,
    Compute,
    StateRead,
    Gas,
    Access,
}

/// A grammar-generated long program with its initial state.
pub fn random_case(r: &mut Rng, focus: Focus) -> VmCase {
    let mut case = base_case(r);
    let which = if r.chance(0.7) { [0, 1, 11, 3][r.below(4)] } else { r.below(12) };
    boundary_state(r, &mut case, which);
    if r.chance(0.08) {
        let n = [0usize, 1, 6, 10240][r.below(4)];
        case.parent_memory = Some(fill(r, n));
    }
    if r.chance(0.1) {
        let d = *r.pick(&[1usize, 2, 4095, 4096]);
        case.repeat = (0..d)
            .map(|i| {
                if i % 2 == 0 {
                    Slot { counter: 0, up_limit: Some(2), idx: 0 }
                } else {
                    Slot { counter: 2, up_limit: None, idx: 1 }
                }
            })
            .collect();
    }
    if r.chance(0.08) {
        // hostile state: ragged / too many / failing answers
        let script = match r.below(4) {
            0 => Script::Fail("state failure".into()),
            1 => Script::Fixed((0..r.below(9)).map(|i| vec![i as Word; r.below(5)]).collect()),
            2 => Script::Fixed(vec![vec![7; 3000]; 4]),
            _ => Script::Fixed(vec![]),
        };
        if r.chance(0.5) {
            case.pre.script = script;
        } else {
            case.post.script = script;
        }
    }
    let sols = case.solutions.clone();
    let len = match if tiny() { 0 } else { r.below(4) } {
        0 => 3 + r.below(8),
        1 | 2 => 10 + r.below(40),
        // mostly up to 300 ops, now and then a long program (thousands of ops)
        _ => if r.chance(0.04) { 300 + r.below(3000) } else { 50 + r.below(250) },
    };
    let mut g = Gen {
        r,
        ops: vec![],
        h: case.stack.len() as i64,
        ml: case.memory.len() as i64,
        in_child: case.parent_memory.is_some(),
        loops: 0,
        p_mut: [0.0, 0.02, 0.05, 0.15][which % 4],
        sols: &sols,
        index: case.index,
        allow_compute: case.parent_memory.is_none(),
        allow_crypto: focus == Focus::Access,
        budget: len,
    };
    while g.ops.len() < len {
        match focus {
            Focus::General => g.fragment(),
            Focus::Control => match g.r.below(6) {
                0 => g.repeat_loop(),
                1 => g.forward_jump(),
                2 => g.backward_jump(),
                3 => g.halts(),
                _ => g.fragment(),
            },
            Focus::Compute | Focus::Gas => match g.r.below(4) {
                0 | 1 => {
                    if g.allow_compute {
                        g.compute()
                    } else {
                        g.fragment()
                    }
                }
                2 => g.repeat_loop(),
                _ => g.fragment(),
            },
            Focus::StateRead => match g.r.below(3) {
                0 | 1 => g.state_read(),
                _ => g.fragment(),
            },
            Focus::Access => match g.r.below(3) {
                0 => g.access(),
                1 => g.crypto(),
                _ => g.fragment(),
            },
        }
    }
    let ops = std::mem::take(&mut g.ops);
    case.set_ops(&ops);
    if r.chance(0.06) {
        // a machine entered somewhere else: mid-program (whatever is on the stack there), at the end, past the end
        case.pc = match r.below(4) {
            0 => ops.len(),
            1 => ops.len() + 1 + r.below(3),
            _ => r.below(ops.len().max(1)),
        };
    }
    case
}

/// Cost functions and limits for C07.
pub fn gas_setup(r: &mut Rng, case: &mut VmCase, exact_total: Option<u128>) {
    case.cost = match r.below(8) {
        0 => CostFn::Const(0),
        1 | 2 => CostFn::Const(1),
        3 => CostFn::Const(*r.pick(&[2u64, 7, 1 << 20, 1 << 62, 1 << 63, u64::MAX / 60, u64::MAX])),
        4 | 5 => CostFn::Table((0..256).map(|_| r.below(5) as u64).collect()),
        6 => {
            if r.chance(0.5) {
                CostFn::Table((0..256).map(|_| 1 + r.below(1000) as u64).collect())
            } else {
                // free parent prologue (Push, Compute), very expensive everything else: sums of a few
                // children cross u64::MAX although each child fits
                let big = u64::MAX / *r.pick(&[2u64, 3, 4, 7, 8, 16]) - r.below(3) as u64;
                let mut t: Vec<u64> = (0..256).map(|_| if r.chance(0.5) { big } else { 0 }).collect();
                t[0x01] = 0;
                t[0x90] = 0;
                t[0x91] = if r.chance(0.5) { 0 } else { big };
                CostFn::Table(t)
            }
        }
        _ => CostFn::Table((0..256).map(|_| if r.chance(0.1) { 1u64 << 61 } else { r.below(3) as u64 }).collect()),
    };
    case.limit = match (r.below(8), exact_total) {
        (0, _) => u64::MAX,
        (1, _) => *r.pick(&[0u64, 1, 2, 3, 10]),
        (2, Some(t)) if t <= u64::MAX as u128 => t as u64,
        (3, Some(t)) if t >= 1 && t <= u64::MAX as u128 => t as u64 - 1,
        (4, Some(t)) if t < u64::MAX as u128 => t as u64 + 1,
        (5, Some(t)) if t >= 2 && t <= u64::MAX as u128 => r.range(0, (t as u64).min(i64::MAX as u64) as i64) as u64,
        (6, _) => r.next_u64(),
        _ => r.below(400) as u64,
    };
}

/// Small structured programs for the gas oracle: a free or cheap prologue, a Compute whose children
/// execute a few ops, an optional tail; cost tables put 0 / small / near-overflow costs on each op kind.
pub fn gas_probe(r: &mut Rng) -> VmCase {
    let mut case = base_case(r);
    // a few children, or (rarely) enough of them for any batched / chunked join to need several rounds
    let breadth = if !tiny() && r.chance(0.04) { *r.pick(&[65i64, 257, 300, 513, 1025, 2049, 4097]) } else { *r.pick(&[1i64, 2, 2, 3, 4, 8]) };
    let mut ops = vec![];
    for _ in 0..r.below(3) {
        ops.push(PUSH(r.range(0, 5)));
    }
    ops.extend([PUSH(breadth), COM]);
    for _ in 0..r.below(4) {
        match r.below(4) {
            0 => ops.extend([PUSH(1), POP]),
            1 => ops.extend([DUP, POP]),
            2 => ops.extend([PUSH(1), ALOC, POP]),
            _ => ops.push(POP),
        }
    }
    if r.chance(0.8) {
        ops.push(COME);
        // sometimes a second fork in the same run (its children's budget is what the first one left)
        if r.chance(0.35) {
            let b2 = *r.pick(&[1i64, 2, 3, 5]);
            ops.extend([PUSH(b2), COM]);
            for _ in 0..1 + r.below(3) {
                ops.extend([PUSH(1), POP]);
            }
            if r.chance(0.7) {
                ops.push(COME);
            }
        }
    }
    for _ in 0..r.below(3) {
        ops.extend([PUSH(7), POP]);
    }
    case.set_ops(&ops);
    let choices: Vec<u64> = vec![0, 0, 1, 3, 12, u64::MAX / breadth as u64, (u64::MAX / breadth as u64).saturating_add(1), u64::MAX / 2, u64::MAX / 2 + 1, 1 << 62, u64::MAX];
    let mut t = vec![1u64; 256];
    for b in [0x01usize, 0x02, 0x03, 0x70, 0x90, 0x91] {
        t[b] = *r.pick(&choices);
    }
    if r.chance(0.5) {
        // free prologue
        t[0x01] = 0;
        t[0x90] = *r.pick(&[0u64, 0, 1, 3]);
    }
    case.cost = CostFn::Table(t);
    case.limit = u64::MAX;
    case
}
