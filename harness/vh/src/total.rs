//! Totality engine (C06): decoders and validators must return a result or a typed error on
//! any input - never panic, never abort on allocation, never index out of bounds.

use crate::{report::Report, rng::Rng, vmcase::catch, Args};
use essential_check::{predicate as cpred, solution as csol};
use essential_types::{
    contract::{Contract, SignedContract},
    predicate::Predicate,
    solution::{decode, encode, Mutation, SolutionSet},
    Word,
};
use serde_json::json;

const WALPHA: &[Word] = &[i64::MIN, -1, 0, 1, 2, 3, 5, 1 << 40, i64::MAX];

fn words_case(ws: &[Word]) -> serde_json::Value {
    json!({"engine": "total", "kind": "words", "words": ws})
}
fn bytes_case(kind: &str, b: &[u8]) -> serde_json::Value {
    json!({"engine": "total", "kind": kind, "bytes": hex::encode(b)})
}

pub fn check_words(ws: &[Word], rep: &mut Report) {
    crate::wal(&|| words_case(ws));
    rep.evaluations += 1;
    let r = catch(|| {
        let a = decode::decode_mutations(ws);
        let b = decode::decode_mutation(ws);
        let c = Mutation::decode_mutation(ws);
        (a.map(|v| v.len()), b.is_ok(), c.is_ok())
    });
    match r {
        Err(p) => rep.violation("C06", "panic", format!("mutation decoder panicked: {p}"), words_case(ws)),
        Ok((a, b, _)) => {
            rep.count(if a.is_ok() { "words.decoded" } else { "words.rejected" });
            if b {
                rep.count("words.single_decoded");
            }
            if ws.len() >= 2 {
                rep.nontrivial(crate::rng::fnv_words(ws));
            }
        }
    }
}

pub fn check_predicate_bytes(b: &[u8], rep: &mut Report) {
    crate::wal(&|| bytes_case("predicate-bytes", b));
    rep.evaluations += 1;
    let r = catch(|| {
        let p = Predicate::decode(b);
        if let Ok(p) = &p {
            // every accessor on whatever was decoded
            for i in 0..p.nodes.len() + 2 {
                let _ = p.node_edges(i);
            }
            let _ = p.encode().map(|i| i.count());
            let _ = p.encoded_size();
            let _ = cpred::check(p);
            let _ = essential_hash::content_addr(p);
        }
        p.is_ok()
    });
    match r {
        Err(p) => rep.violation("C06", "panic", format!("predicate decoder / accessors panicked: {p}"), bytes_case("predicate-bytes", b)),
        Ok(ok) => {
            rep.count(if ok { "predicate_bytes.decoded" } else { "predicate_bytes.rejected" });
            if b.len() >= 4 {
                rep.nontrivial(crate::rng::fnv(b));
            }
        }
    }
}

pub fn check_program_bytes(b: &[u8], rep: &mut Report) {
    crate::wal(&|| bytes_case("program-bytes", b));
    rep.evaluations += 1;
    let r = catch(|| {
        let parsed: Result<Vec<_>, _> = essential_vm::asm::from_bytes(b.iter().copied()).collect();
        let mapped = essential_vm::BytecodeMapped::try_from(b.to_vec());
        if let Ok(m) = &mapped {
            let _ = m.ops().count();
            for i in 0..m.op_indices().len() + 1 {
                let _ = m.op(i);
            }
        }
        let _ = essential_vm::asm::effects::bytes_contains_any(b, essential_vm::asm::effects::Effects::all());
        (parsed.is_ok(), mapped.is_ok())
    });
    match r {
        Err(p) => rep.violation("C06", "panic", format!("bytecode decoders panicked: {p}"), bytes_case("program-bytes", b)),
        Ok((p, _)) => {
            rep.count(if p { "program_bytes.parsed" } else { "program_bytes.rejected" });
            if b.len() >= 2 {
                rep.nontrivial(crate::rng::fnv(b) ^ 1);
            }
        }
    }
}

/// Arbitrary (also far over the limits) sets / predicates / contracts through the validators.
fn check_validators(r: &mut Rng, rep: &mut Report) {
    let big = r.chance(0.05);
    let set = SolutionSet {
        solutions: (0..if big { *r.pick(&[0usize, 99, 100, 101, 150]) } else { r.below(4) })
            .map(|_| {
                let mut s = crate::formats::gen_solution(r, false);
                if r.chance(0.2) {
                    // duplicate keys, over-long keys/values
                    let m = crate::formats::gen_mutation(r, true);
                    s.state_mutations.push(m.clone());
                    if r.chance(0.5) {
                        s.state_mutations.push(m);
                    }
                    if r.chance(0.3) {
                        s.state_mutations.push(Mutation { key: vec![0; 1001], value: vec![0; 10_001] });
                    }
                }
                if r.chance(0.1) {
                    s.predicate_data = (0..101).map(|_| vec![1]).collect();
                }
                s
            })
            .collect(),
    };
    let case = || json!({"engine": "total", "kind": "validators", "solutions": set.solutions.len()});
    crate::wal(&case);
    rep.evaluations += 1;
    let res = catch(|| {
        let a = csol::check_set(&set).is_ok();
        let _ = csol::check_solutions(&set.solutions);
        let _ = csol::check_set_state_mutations(&set);
        let _ = essential_hash::content_addr(&set);
        a
    });
    match res {
        Err(p) => rep.violation("C06", "panic", format!("set validators panicked: {p}"), case()),
        Ok(a) => rep.count(if a { "validators.set_accepted" } else { "validators.set_rejected" }),
    }
    let contract = Contract {
        predicates: (0..if big { *r.pick(&[0usize, 100, 101]) } else { r.below(4) }).map(|_| {
                let b = big && r.chance(0.3);
                crate::formats::gen_predicate(r, b)
            })
            .collect(),
        salt: r.bytes32(),
    };
    let signed = SignedContract { contract: contract.clone(), signature: crate::formats::gen_signature(r) };
    rep.evaluations += 1;
    let res = catch(|| {
        let a = cpred::check_contract(&contract.predicates).is_ok();
        // signature recovery is C code (secp256k1): Miri cannot execute it
        let b = if cfg!(miri) {
            false
        } else {
            let b = cpred::check_signed_contract(&signed).is_ok();
            let _ = essential_sign::contract::recover(&signed);
            let _ = essential_sign::contract::verify(&signed);
            b
        };
        (a, b)
    });
    match res {
        Err(p) => rep.violation("C06", "panic", format!("contract validators panicked: {p}"), json!({"engine": "total", "kind": "contract", "signature": signed.signature.to_string()})),
        Ok((a, _)) => rep.count(if a { "validators.contract_accepted" } else { "validators.contract_rejected" }),
    }
}

pub fn run(args: &Args, rep: &mut Report) {
    crate::vmcase::install_panic_hook();
    let thorough = args.tier == "thorough";
    // exhaustive: every word string of length <= 4 (5 thorough) over the boundary alphabet
    let maxlen = if thorough { 5 } else { 4 };
    let mut n = 0u64;
    for len in 0..=maxlen {
        let total = (WALPHA.len() as u64).pow(len as u32);
        for ix in 0..total {
            n += 1;
            if n % args.nshards as u64 != args.shard as u64 {
                continue;
            }
            let mut k = ix;
            let ws: Vec<Word> = (0..len)
                .map(|_| {
                    let w = WALPHA[(k % WALPHA.len() as u64) as usize];
                    k /= WALPHA.len() as u64;
                    w
                })
                .collect();
            check_words(&ws, rep);
        }
    }
    rep.set("exhaustive_subspaces", format!("every word string of length <= {maxlen} over a {}-value boundary alphabet through the mutation decoders", WALPHA.len()));
    let mut r = Rng::new(crate::rng::mix(args.seed.wrapping_mul(1_000_003) + args.shard as u64, 0x7074));
    let budget = ((if thorough { 6_000_000.0 } else { 250_000.0 }) * args.scale) as u64 / args.nshards as u64;
    for _ in 0..budget.max(1) {
        match r.below(6) {
            0 | 1 => {
                // mutated valid encodings
                let ms: Vec<Mutation> = (0..r.below(4)).map(|_| crate::formats::gen_mutation(&mut r, false)).collect();
                let mut ws: Vec<Word> = encode::encode_mutations(&ms).collect();
                for _ in 0..r.below(3) {
                    if ws.is_empty() {
                        break;
                    }
                    let i = r.below(ws.len());
                    match r.below(4) {
                        0 => ws[i] = *r.pick(WALPHA),
                        1 => {
                            ws.truncate(i);
                        }
                        2 => ws.insert(i, *r.pick(WALPHA)),
                        _ => ws[i] = ws[i].wrapping_add(1),
                    }
                }
                check_words(&ws, rep);
            }
            2 => {
                let n = r.below(10);
                let ws: Vec<Word> = (0..n).map(|_| if r.chance(0.7) { r.range(-1, 6) } else { *r.pick(WALPHA) }).collect();
                check_words(&ws, rep);
            }
            3 => {
                let bigp = r.chance(0.02);
                let p = crate::formats::gen_predicate(&mut r, bigp);
                let mut b: Vec<u8> = crate::formats::own_predicate_bytes(&p);
                match r.below(4) {
                    0 => {
                        let k = r.below(b.len() + 1);
                        b.truncate(k);
                    }
                    1 => {
                        if !b.is_empty() {
                            let i = r.below(b.len());
                            b[i] ^= 1 << r.below(8);
                        }
                    }
                    2 => {
                        // lie about the counts
                        if b.len() >= 2 {
                            b[0] = 0xff;
                            b[1] = 0xff;
                        }
                    }
                    _ => {}
                }
                check_predicate_bytes(&b, rep);
                let n = r.below(80);
                let raw = r.bytes(n);
                check_predicate_bytes(&raw, rep);
            }
            4 => {
                let n = r.below(60);
                let raw = r.bytes(n);
                check_program_bytes(&raw, rep);
            }
            _ => check_validators(&mut r, rep),
        }
    }
    rep.sample(3, || json!({"words": [1, 1, 5], "note": "word strings through decode_mutation(s); predicate byte strings (truncated, bit-flipped, lying counts, random) through Predicate::decode + accessors; random bytes through from_bytes / BytecodeMapped / effects; over-limit sets and contracts through the validators"}));
}

pub fn replay(case: &serde_json::Value, rep: &mut Report) {
    crate::vmcase::install_panic_hook();
    match case.get("kind").and_then(|k| k.as_str()) {
        Some("words") => {
            let ws: Vec<Word> = serde_json::from_value(case["words"].clone()).unwrap_or_default();
            check_words(&ws, rep);
        }
        Some("predicate-bytes") => check_predicate_bytes(&hex::decode(case["bytes"].as_str().unwrap_or("")).unwrap_or_default(), rep),
        Some("program-bytes") => check_program_bytes(&hex::decode(case["bytes"].as_str().unwrap_or("")).unwrap_or_default(), rep),
        _ => rep.inconclusive.push("this totality case cannot be replayed from data".into()),
    }
}
