#!/bin/sh
# Build the harness profiles the quick checks use, offline, from files on disk only.
set -e
cd "$(dirname "$0")/harness"
export CARGO_NET_OFFLINE=true
export RUSTFLAGS="--cfg essential_base_verif"
cargo build --offline -p vh --profile release --target-dir ../target-release
cargo build --offline -p vh --target-dir ../target-dev
