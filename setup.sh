#!/bin/sh
# Build the harness profiles the quick checks use, offline, from files on disk only.
set -e
cd "$(dirname "$0")/harness"
export CARGO_NET_OFFLINE=true
export RUSTFLAGS="--cfg essential_base_verif"
cargo build --offline -p vh --profile release --target-dir ../target-release
cargo build --offline -p vh --target-dir ../target-dev
cargo build --offline -p vh-lock --profile release --target-dir ../target-release
# warm the Miri sysroot and the lock harness under Miri (used by the C20 quick check)
MIRIFLAGS="-Zmiri-ignore-leaks" RUSTFLAGS="" cargo +nightly miri run --offline -p vh-lock --target-dir ../target-miri -- --histories 1 --threads 2 --ops 1 >/dev/null 2>&1 || true
