#!/usr/bin/env python3
"""Run checks against seeded breaks in scratch copies, in parallel, without touching /repo or /verif.

    tools/mutbatch.py [--slots N] [--tier quick] [--out FILE] ITEM...

ITEM = <catalogue-name>[:ID,ID...]  |  <path/to/patch.diff>:ID,ID...
Each slot is /tmp/mutslot<k>/{repo (git worktree of /repo HEAD), verif (copy of /verif with the
harness' path dependencies pointed at the slot's repo)}; target dirs persist inside the slot so
rebuilds are incremental.  Results: one JSON line per (item, property) appended to --out.
"""
import json, os, subprocess, sys, threading, queue, time, shutil
sys.path.insert(0, os.path.dirname(os.path.abspath(__file__)))
from mutants import MUTANTS

def sh(*cmd, **kw):
    return subprocess.run(cmd, stdout=subprocess.PIPE, stderr=subprocess.STDOUT, text=True, **kw)

def setup_slot(k):
    root = f"/tmp/mutslot{k}"
    repo, verif = f"{root}/repo", f"{root}/verif"
    os.makedirs(root, exist_ok=True)
    head = sh("git", "-C", "/repo", "rev-parse", "HEAD").stdout.strip()
    if not os.path.exists(repo):
        r = sh("git", "-C", "/repo", "worktree", "add", "--detach", repo, head)
        assert r.returncode == 0, r.stdout
    else:
        sh("git", "-C", repo, "checkout", "-q", "--", ".")
        sh("git", "-C", repo, "clean", "-fdq", "--exclude=target")
        sh("git", "-C", repo, "checkout", "-q", "--detach", head)
    os.makedirs(verif, exist_ok=True)
    r = sh("rsync", "-a", "--delete", "--exclude", "target*", "--exclude", ".git", "--exclude", "replays", "--exclude", "evidence",
           "--exclude", "seeded", "/verif/", verif + "/")
    assert r.returncode == 0, r.stdout
    for f in ("harness/vh/Cargo.toml", "harness/vh-lock/Cargo.toml", "harness/vh-mini/Cargo.toml"):
        p = os.path.join(verif, f)
        if os.path.exists(p):
            s = open(p).read().replace('"/repo/crates', f'"{repo}/crates')
            open(p, "w").write(s)
    # scripts that mention /repo explicitly
    for f in ("check", "lib/stages.py", "lib/plans.py"):
        p = os.path.join(verif, f)
        if os.path.exists(p):
            s = open(p).read().replace('"/repo"', f'"{repo}"').replace("'/repo'", f"'{repo}'")
            open(p, "w").write(s)
    return repo, verif

def apply_item(repo, item):
    if item in MUTANTS:
        f, old, new, _ = MUTANTS[item]
        path = os.path.join(repo, f)
        s = open(path).read()
        olds, news = (old, new) if isinstance(old, list) else ([old], [new])
        for o in olds:
            if s.count(o) != 1:
                return f"catalogue pattern matches {s.count(o)} times"
        # simultaneous replacement
        for k, o in enumerate(olds):
            s = s.replace(o, f"@@MUT{k}@@")
        for k, n in enumerate(news):
            s = s.replace(f"@@MUT{k}@@", n)
        open(path, "w").write(s)
        return None
    r = sh("git", "-C", repo, "apply", os.path.abspath(item))
    return None if r.returncode == 0 else r.stdout[-300:]

def worker(k, q, out, tier, lock):
    while True:
        try:
            item, props = q.get_nowait()
        except queue.Empty:
            return
        repo, verif = setup_slot(k)
        err = apply_item(repo, item)
        for p in props:
            t0 = time.time()
            if err:
                rec = {"item": item, "property": p, "error": err}
            else:
                r = sh(os.path.join(verif, "check"), p, "--tier", tier, cwd=verif)
                lines = r.stdout.splitlines()
                rec = {"item": item, "property": p, "exit": r.returncode,
                       "violations": sum(1 for l in lines if l.startswith("VIOLATION")),
                       "first": next((l.strip() for l in lines if l.startswith("  ")), "")[:300],
                       "notes": [l[:160] for l in lines if l.startswith(("NOTE", "INCONCLUSIVE", "KNOWN"))][:6],
                       "verdict": lines[-1][:200] if lines else "", "wall_s": round(time.time() - t0, 1)}
            with lock:
                with open(out, "a") as f:
                    f.write(json.dumps(rec) + "\n")
                print(json.dumps(rec), flush=True)
        sh("git", "-C", repo, "checkout", "-q", "--", ".")

def main():
    args = sys.argv[1:]
    slots, tier, out, items, first = 3, "quick", "/tmp/mutresults.jsonl", [], 0
    i = 0
    while i < len(args):
        if args[i] == "--slots": slots = int(args[i + 1]); i += 2
        elif args[i] == "--first-slot": first = int(args[i + 1]); i += 2
        elif args[i] == "--tier": tier = args[i + 1]; i += 2
        elif args[i] == "--out": out = args[i + 1]; i += 2
        elif args[i] == "--cleanup":
            for k in range(16):
                root = f"/tmp/mutslot{k}"
                if os.path.exists(root):
                    sh("git", "-C", "/repo", "worktree", "remove", "--force", f"{root}/repo")
                    shutil.rmtree(root, ignore_errors=True)
            sh("git", "-C", "/repo", "worktree", "prune")
            return
        else: items.append(args[i]); i += 1
    q = queue.Queue()
    for it in items:
        name, _, props = it.partition(":")
        props = props.split(",") if props else (MUTANTS[name][3] if name in MUTANTS else [])
        q.put((name, props))
    lock = threading.Lock()
    ts = [threading.Thread(target=worker, args=(k, q, out, tier, lock)) for k in range(first, first + slots)]
    for t in ts: t.start()
    for t in ts: t.join()

main()
