#!/usr/bin/env python3
"""Collect the recorded runs of checks against seeded changes into seeded/RESULTS.md and the seeds' meta.json.

    tools/seedtable.py [results.jsonl ...]     (new result files are first copied into seeded/runs/)
"""
import json, os, shutil, sys
sys.path.insert(0, os.path.dirname(os.path.abspath(__file__)))
from mutants import MUTANTS

SEEDED = "/verif/seeded"
RUNS = os.path.join(SEEDED, "runs")
os.makedirs(RUNS, exist_ok=True)
for f in sys.argv[1:]:
    if os.path.exists(f):
        shutil.copy(f, os.path.join(RUNS, os.path.basename(f)))

latest = {}   # (item, property) -> record; later files / lines win
for f in sorted(os.listdir(RUNS), key=lambda x: os.path.getmtime(os.path.join(RUNS, x))):
    for l in open(os.path.join(RUNS, f)):
        try:
            r = json.loads(l)
        except ValueError:
            continue
        if "exit" not in r:
            continue
        if r.get("exit") == 2 and any("build" in n for n in r.get("notes", [])):
            continue  # harness was mid-edit when this ran
        item = r["item"].replace("/verif/seeded/", "").replace("/patch.diff", "")
        item = item[len("seeded/"):] if item.startswith("seeded/") else item
        latest[(item, r["property"])] = r

items = {}
for (item, prop), r in latest.items():
    items.setdefault(item, {})[prop] = r

def verdict(r):
    return {0: "silent", 1: "FIRES", 2: "inconclusive"}.get(r["exit"], str(r["exit"]))

lines = ["# Checks against seeded changes", "",
         "One row per seeded change; `target` = the property the change was written to break; for every check that was run against it: FIRES (exit 1 with VIOLATION lines) / silent (exit 0) / inconclusive (exit 2).",
         "Catalogue entries are `tools/mutants.py`; `Cxx-a<n>` are the independent changes under this directory.", "",
         "| change | target | target check(s) | other checks run | first witness of the target check |", "|---|---|---|---|---|"]
missed = []
for item in sorted(items):
    runs = items[item]
    if item in MUTANTS:
        targets = MUTANTS[item][3]
    else:
        targets = [item.split("-")[0]]
    tcol = ", ".join(f"{p} {verdict(runs[p])}" for p in targets if p in runs) or "not run"
    ocol = ", ".join(f"{p} {verdict(r)}" for p, r in sorted(runs.items()) if p not in targets)
    first = next((runs[p].get("first", "") for p in targets if p in runs and runs[p]["exit"] == 1), "")
    lines.append(f"| {item} | {', '.join(targets)} | {tcol} | {ocol} | {first[:140].replace('|', '/')} |")
    if not any(p in runs and runs[p]["exit"] == 1 for p in targets):
        missed.append(item)
    meta = os.path.join(SEEDED, item, "meta.json")
    if os.path.exists(meta):
        m = json.load(open(meta))
        m["checks_run"] = {p: {"result": verdict(r), "violations": r.get("violations"), "first_witness": r.get("first", "")[:300], "tier": "quick"} for p, r in sorted(runs.items())}
        json.dump(m, open(meta, "w"), indent=1)
lines += ["", f"Changes whose target check did not fire in the recorded runs: {', '.join(missed) if missed else 'none'}."]
open(os.path.join(SEEDED, "RESULTS.md"), "w").write("\n".join(lines) + "\n")
print("\n".join(lines[-3:]))
print(len(items), "changes")
