#!/bin/bash
# Run every registered check (quick by default) and print one line each.
tier=${1:-quick}
cd "$(dirname "$0")/.."
for p in $(python3 -c "import json;print(' '.join(c['property_id'] for c in json.load(open('MANIFEST.json'))['checks']))"); do
  s=$(date +%s)
  out=$(./check $p --tier $tier 2>&1)
  rc=$?
  e=$(( $(date +%s) - s ))
  echo "$p rc=$rc ${e}s $(echo "$out" | grep -E '^\[verdict\]' | tail -1)"
  echo "$out" | grep -E '^(VIOLATION|INCONCLUSIVE|KNOWN)' | head -5
done
