#!/bin/bash
# Run every quick check at several VERIF_SEED values; print only what is not "held".
cd "$(dirname "$0")/.."
for s in ${@:-2 3 5 7 11}; do
  for p in $(python3 -c "import json;print(' '.join(c['property_id'] for c in json.load(open('MANIFEST.json'))['checks']))"); do
    out=$(VERIF_SEED=$s ./check $p --tier quick 2>&1); rc=$?
    if [ $rc -ne 0 ]; then echo "seed=$s $p rc=$rc"; echo "$out" | grep -E '^(VIOLATION|INCONCLUSIVE|  )' | head -5; fi
  done
  echo "seed $s done"
done
