#!/usr/bin/env python3
"""Confirm a seeded change delivered by a sub-agent, in a scratch worktree, and file it under /verif/seeded/.

    tools/seedcheck.py <PROP> <src-dir-with patch.diff demo.rs notes.md> <name>

Confirms, independently of the agent: (1) the patch applies and the workspace builds, (2) the existing test
suite passes with the patch, (3) the demonstration passes WITHOUT the patch and (4) fails WITH it.
"""
import json, os, re, shutil, subprocess, sys, time

WT = os.environ.get("SEEDVERIFY_WT", "/tmp/seedverify")

def sh(cmd, **kw):
    return subprocess.run(cmd, shell=True, stdout=subprocess.PIPE, stderr=subprocess.STDOUT, text=True, **kw)

def main():
    prop, src, name = sys.argv[1], sys.argv[2], sys.argv[3]
    if not os.path.exists(WT):
        r = sh(f"git -C /repo worktree add --detach {WT} HEAD"); assert r.returncode == 0, r.stdout
    head = sh("git -C /repo rev-parse HEAD").stdout.strip()
    sh(f"git -C {WT} checkout -q -- . && git -C {WT} clean -fdq -e target && git -C {WT} checkout -q --detach {head}")
    env = dict(os.environ, CARGO_TARGET_DIR=f"{WT}/target", CARGO_NET_OFFLINE="true")
    notes = open(os.path.join(src, "notes.md")).read()
    m = re.findall(r"crates/[\w\-/]+/tests/[\w\-]+\.rs", notes)
    demo_rel = next((x for x in m if "seeded" in x or "demo" in x), m[0] if m else None)
    assert demo_rel, "demo path not found in notes.md"
    crate_dir = demo_rel.split("/tests/")[0]
    pkg = re.search(r'name\s*=\s*"([^"]+)"', open(f"{WT}/{crate_dir}/Cargo.toml").read()).group(1)
    test_name = os.path.basename(demo_rel)[:-3]
    res = {"property": prop, "name": name, "demo_path": demo_rel, "package": pkg, "base_commit": head}
    # (2) existing suite with the patch
    r = sh(f"git -C {WT} apply {os.path.abspath(src)}/patch.diff")
    res["patch_applies"] = r.returncode == 0
    if r.returncode != 0:
        res["error"] = r.stdout[-400:]
        print(json.dumps(res, indent=1)); return 1
    t0 = time.time()
    r = sh(f"cd {WT} && cargo test --workspace --offline --no-fail-fast 2>&1 | grep -E '^test result|FAILED|^error' ", env=env)
    lines = r.stdout.splitlines()
    passed = sum(int(re.search(r"(\d+) passed", l).group(1)) for l in lines if "test result" in l)
    failed = sum(int(re.search(r"(\d+) failed", l).group(1)) for l in lines if "test result" in l)
    res["suite_with_patch"] = {"passed": passed, "failed": failed, "errors": [l for l in lines if l.startswith("error")][:3], "wall_s": round(time.time() - t0)}
    # (4) demo with the patch
    os.makedirs(os.path.dirname(f"{WT}/{demo_rel}"), exist_ok=True)
    shutil.copy(os.path.join(src, "demo.rs"), f"{WT}/{demo_rel}")
    r = sh(f"cd {WT} && cargo test -p {pkg} --offline --test {test_name} 2>&1 | tail -25", env=env)
    res["demo_with_patch_fails"] = ("test result: FAILED" in r.stdout) or ("panicked" in r.stdout and "test result: ok" not in r.stdout)
    res["demo_with_patch_tail"] = r.stdout[-600:]
    # (3) demo without the patch
    sh(f"git -C {WT} apply -R {os.path.abspath(src)}/patch.diff")
    r = sh(f"cd {WT} && cargo test -p {pkg} --offline --test {test_name} 2>&1 | tail -12", env=env)
    res["demo_without_patch_passes"] = "test result: ok" in r.stdout and "FAILED" not in r.stdout
    res["demo_without_patch_tail"] = r.stdout[-500:]
    os.remove(f"{WT}/{demo_rel}")
    sh(f"git -C {WT} checkout -q -- . && git -C {WT} clean -fdq -e target")
    ok = res["patch_applies"] and failed == 0 and passed >= 246 and res["demo_with_patch_fails"] and res["demo_without_patch_passes"]
    res["confirmed"] = ok
    dst = f"/verif/seeded/{name}"
    if ok:
        os.makedirs(dst, exist_ok=True)
        for f in ("patch.diff", "demo.rs", "notes.md"):
            shutil.copy(os.path.join(src, f), dst)
        meta = {"property": prop, "needs_to_manifest": "see notes.md", "demo_path": demo_rel, "demo_cmd": f"cargo test -p {pkg} --offline --test {test_name}",
                "confirmed": {k: res[k] for k in ("patch_applies", "suite_with_patch", "demo_with_patch_fails", "demo_without_patch_passes", "base_commit")},
                "checks_run": {}}
        json.dump(meta, open(f"{dst}/meta.json", "w"), indent=1)
    res.pop("demo_with_patch_tail", None) if ok else None
    print(json.dumps(res, indent=1))
    return 0 if ok else 1

sys.exit(main())
