#!/usr/bin/env python3
"""Apply one of the catalogue mutants to /repo, run the given checks, undo it.
usage: tools/mut.py <mutant> <ID>[,<ID>...] [--tier quick]      (tools/mut.py list)"""
import json, os, subprocess, sys
sys.path.insert(0, os.path.dirname(__file__))
from mutants import MUTANTS

def main():
    if sys.argv[1] == "list":
        for k, (f, a, b, props) in MUTANTS.items():
            print(k, f, props)
        return
    name, props = sys.argv[1], sys.argv[2].split(",")
    f, old, new, _ = MUTANTS[name]
    path = os.path.join("/repo", f)
    s = open(path).read()
    olds, news = (old, new) if isinstance(old, list) else ([old], [new])
    for k, o in enumerate(olds):
        assert s.count(o) == 1, (name, s.count(o))
        s = s.replace(o, f"@@MUT{k}@@")
    for k, n in enumerate(news):
        s = s.replace(f"@@MUT{k}@@", n)
    open(path, "w").write(s)
    try:
        for p in props:
            r = subprocess.run(["/verif/check", p] + sys.argv[3:], stdout=subprocess.PIPE, stderr=subprocess.STDOUT, text=True)
            lines = r.stdout.splitlines()
            v = [l for l in lines if l.startswith("VIOLATION")]
            notes = [l for l in lines if l.startswith(("NOTE", "INCONCLUSIVE", "KNOWN"))]
            first = next((l for l in lines if l.startswith("  ")), "")
            print(f"{name:28s} {p}: exit={r.returncode} violations={len(v)} {lines[-1] if lines else ''}")
            if first: print("      ", first[:260])
            for n in notes[:6]: print("      ", n[:200])
    finally:
        subprocess.run(["git", "-C", "/repo", "checkout", "--", "."])

main()
