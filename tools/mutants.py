"""Catalogue of seeded breaks used to validate the monitors (DESIGN.md section 5 'M' lists / appendix C).
name -> (file, old, new, properties expected to fire)"""
MUTANTS = {
 "sub-swapped": ("crates/vm/src/sync.rs", "asm::Alu::Sub => stack.pop2_push1(alu::sub),", "asm::Alu::Sub => stack.pop2_push1(|a, b| alu::sub(b, a)),", ["C08"]),
 "shift-bound-64": ("crates/vm/src/alu.rs", "let bounds = 0..BITS_IN_WORD;", "let bounds = -1..BITS_IN_WORD;", ["C08", "C05"]),
 "div-wrapping": ("crates/vm/src/alu.rs", "a.checked_div(b).ok_or(AluError::DivideByZero.into())", "if b == 0 { Err(AluError::DivideByZero.into()) } else { Ok(a.wrapping_div(b)) }", ["C08"]),
 "mod-euclid": ("crates/vm/src/alu.rs", "a.checked_rem(b).ok_or(AluError::DivideByZero.into())", "a.checked_rem_euclid(b).ok_or(AluError::DivideByZero.into())", ["C08"]),
 "and-bitwise": ("crates/vm/src/sync.rs", "asm::Pred::And => stack.pop2_push1(|a, b| Ok((a != 0 && b != 0).into())),", "asm::Pred::And => stack.pop2_push1(|a, b| Ok(((a & b) != 0).into())),", ["C08"]),
 "alloc-limit-off": ("crates/vm/src/memory.rs", "        if new_size > Self::SIZE_LIMIT {\n            return Err(MemoryError::Overflow);", "        if new_size > Self::SIZE_LIMIT + 1 {\n            return Err(MemoryError::Overflow);", ["C05", "C08"]),
 "stack-push-limit": ("crates/vm/src/stack.rs", "        if self.len() >= Self::SIZE_LIMIT {\n            return Err(StackError::Overflow);", "        if self.len() > Self::SIZE_LIMIT {\n            return Err(StackError::Overflow);", ["C05", "C08"]),
 "eval-bottom-word": ("crates/vm/src/vm.rs", "let word = match self.stack.last() {", "let word = match self.stack.first() {", ["C09"]),
 "haltif-nonzero": ("crates/vm/src/total_control_flow.rs", "    let cond = bool_from_word(cond).ok_or(TotalControlFlowError::InvalidHaltIfCondition)?;\n    if cond {", "    let cond = cond != 0;\n    if cond {", ["C09"]),
 "repeat-down-clamp": ("crates/vm/src/repeat.rs", "            counter: amount,\n", "            counter: amount.max(1),\n", ["C09"]),
 "compute-min-pc": ("crates/vm/src/compute.rs", "        pc = std::cmp::max(pc, *c_pc);", "        pc = if pc == 0 { *c_pc } else { std::cmp::min(pc.max(1), *c_pc).max(1) };", ["C10"]),
 "gas-limit-lt": ("crates/vm/src/vm.rs", "                .filter(|&spent| spent <= gas_limit.total)\n                .ok_or(ExecError(", "                .filter(|&spent| spent < gas_limit.total)\n                .ok_or(ExecError(", ["C07"]),
 "post-extern-to-pre": ("crates/vm/src/sync.rs", "            crate::state_read::key_range_ext(state.post(), stack, memory)", "            crate::state_read::key_range_ext(state.pre(), stack, memory)", ["C11"]),
 "pex-swapped": ("crates/vm/src/access.rs", "                .chain(word_4_from_u8_32(d.predicate_to_solve.contract.0))\n                .chain(word_4_from_u8_32(d.predicate_to_solve.predicate.0))", "                .chain(word_4_from_u8_32(d.predicate_to_solve.predicate.0))\n                .chain(word_4_from_u8_32(d.predicate_to_solve.contract.0))", ["C12"]),
 "jumpif-abs-revert": ("crates/vm/src/total_control_flow.rs", "usize::try_from(dist.unsigned_abs())", "usize::try_from(dist.abs())", ["C05"]),

 # --- scenario layer
 "d1-revert": ("crates/check/src/solution.rs", """    while let Some(ix) = to_visit.pop() {
        if deferred.insert(ix) {
            to_visit.extend(predicate.node_edges(ix as usize).expect("Already checked"));
        }
    }""", """    to_visit.sort();
    for ix in to_visit {
        deferred.insert(ix);
    }
    for ix in 0..predicate.nodes.len() as u16 {
        if deferred.contains(&ix) {
            for child in predicate.node_edges(ix as usize).expect("Already checked") {
                deferred.insert(*child);
            }
        }
    }""", ["C01", "C03"]),
 "d10-revert": ("crates/check/src/solution.rs", """            if usize::from(*edge) >= predicate.nodes.len() {
                return Err(PredicateError::InvalidNodeEdges(node_ix));
            }""", """""", ["C01"]),
 "parents-dedup": ("crates/check/src/solution.rs", """            nodes.entry(*edge).or_default().push(node_ix as u16);""", """            let ps = nodes.entry(*edge).or_default();
            if !ps.contains(&(node_ix as u16)) {
                ps.push(node_ix as u16);
            }""", ["C01"]),
 "leaf-top-word": ("crates/check/src/solution.rs", """        match vm.stack[..] {
            [2] => Output::Leaf(ProgramOutput::DataOutput(DataOutput::Memory(vm.memory))),
            [1] => Output::Leaf(ProgramOutput::Satisfied(true)),""", """        match vm.stack[..] {
            [.., 2] => Output::Leaf(ProgramOutput::DataOutput(DataOutput::Memory(vm.memory))),
            [.., 1] => Output::Leaf(ProgramOutput::Satisfied(true)),""", ["C01"]),
 "deleted-falls-back": ("crates/check/src/solution.rs", """                    Some(value) => out.push(value.clone()),""", """                    Some(value) if !value.is_empty() => out.push(value.clone()),
                    Some(_) => {
                        let mut value = state.key_range(contract_addr.clone(), key.clone(), 1)?;
                        out.push(value.pop().unwrap_or_default());
                    }""", ["C03"]),
 "next-key-no-carry": ("crates/check/src/solution.rs", """            Word::MAX => *w = Word::MIN,""", """            Word::MAX => return None,""", ["C03"]),
 "d3-revert": ("crates/check/src/solution.rs", """        let mut mut_set: HashSet<Key> = s.state_mutations.iter().map(|m| m.key.clone()).collect();""", """        let mut mut_set: HashSet<Key> = HashSet::new();""", ["C16", "C01"]),
 "outputs-unordered": ("crates/check/src/solution.rs", """        let outputs: BTreeMap<u16, Result<(Output, Gas), _>> =""", """        let outputs: HashMap<u16, Result<(Output, Gas), _>> =""", ["C02", "C01"]),
 "set-addr-unsorted": ("crates/hash/src/solution_set_addr.rs", """    solution_addrs.sort();
""", """""", ["C04", "C17"]),
 "contract-addr-unsorted": ("crates/hash/src/contract_addr.rs", """    predicate_addrs.sort();
""", """""", ["C17", "C19"]),
 "d9-revert": ("crates/types/src/predicate/encode.rs", """        + 2 * LEN_SIZE_BYTES""", """        + 2""", ["C17"]),
 "max-solutions-gte": ("crates/check/src/solution.rs", """    if solutions.len() > MAX_SOLUTIONS {""", """    if solutions.len() >= MAX_SOLUTIONS {""", ["C16"]),
 "key-size-dropped": ("crates/check/src/solution.rs", """            check_key_size(&mutation.key).map_err(InvalidSolution::StateMutationEntry)?;""", """""", ["C16"]),
 "d8-revert": ("crates/asm/src/effects.rs", """            Op::StateRead(StateRead::PostKeyRange) => effects |= Effects::PostKeyRange,
            Op::StateRead(StateRead::PostKeyRangeExtern) => {
                effects |= Effects::PostKeyRangeExtern
            }
""", """""", ["C15"]),
 "opcodes-swapped": ("crates/asm-spec/asm.yml", ["""        BitAnd:
          opcode: 0x1A
          short: BAND""", """        BitOr:
          opcode: 0x1B
          short: BOR"""], ["""        BitOr:
          opcode: 0x1A
          short: BOR""", """        BitAnd:
          opcode: 0x1B
          short: BAND"""], ["C13"]),
 "d6-revert": ("crates/types/src/solution/decode.rs", """    if bytes.len() <= key_end {""", """    if bytes.len() < key_end {""", ["C06"]),
 "d7-revert": ("crates/check/src/solution.rs", """            let num_values = num_values.min(Memory::SIZE_LIMIT / 2 + 1);""", """""", ["C06"]),
 "lock-guard-dropped": ("crates/lock/src/lib.rs", """        f(&mut self.data.lock().expect("Mutex was poisoned"))""", """        #[allow(unsafe_code)]
        {
            let p: *mut T = {
                let mut g = self.data.lock().expect("Mutex was poisoned");
                &mut *g as *mut T
            };
            f(unsafe { &mut *p })
        }""", ["C20"]),
 "serde-bytecode-binary": ("crates/types/src/serde/bytecode.rs", """    if s.is_human_readable() {
        hex::serialize(bytecode, s)
    } else {
        bytecode.serialize(s)
    }""", """    if !s.is_human_readable() {
        hex::serialize(bytecode, s)
    } else {
        bytecode.serialize(s)
    }""", ["C18"]),
 "sign-ignores-salt": ("crates/hash/src/contract_addr.rs", """            .chain(Some(salt.as_slice())),""", """            .chain(Some(&salt[..0])),""", ["C17", "C19"]),
}
