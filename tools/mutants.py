"""Catalogue of seeded breaks used to validate the monitors (DESIGN.md section 5 'M' lists / appendix C).
name -> (file, old, new, properties expected to fire)"""
MUTANTS = {
 "sub-swapped": ("crates/vm/src/sync.rs", "asm::Alu::Sub => stack.pop2_push1(alu::sub),", "asm::Alu::Sub => stack.pop2_push1(|a, b| alu::sub(b, a)),", ["C08"]),
 "shift-bound-64": ("crates/vm/src/alu.rs", "let bounds = 0..BITS_IN_WORD;", "let bounds = -1..BITS_IN_WORD;", ["C08", "C05"]),
 "div-wrapping": ("crates/vm/src/alu.rs", "a.checked_div(b).ok_or(AluError::DivideByZero.into())", "if b == 0 { Err(AluError::DivideByZero.into()) } else { Ok(a.wrapping_div(b)) }", ["C08"]),
 "mod-euclid": ("crates/vm/src/alu.rs", "a.checked_rem(b).ok_or(AluError::DivideByZero.into())", "a.checked_rem_euclid(b).ok_or(AluError::DivideByZero.into())", ["C08"]),
 "and-bitwise": ("crates/vm/src/sync.rs", "asm::Pred::And => stack.pop2_push1(|a, b| Ok((a != 0 && b != 0).into())),", "asm::Pred::And => stack.pop2_push1(|a, b| Ok(((a & b) != 0).into())),", ["C08"]),
 "alloc-limit-off": ("crates/vm/src/memory.rs", "        if new_size > Self::SIZE_LIMIT {\n            return Err(MemoryError::Overflow);", "        if new_size > Self::SIZE_LIMIT + 1 {\n            return Err(MemoryError::Overflow);", ["C05", "C08"]),
 "stack-push-limit": ("crates/vm/src/stack.rs", "        if self.len() >= Self::SIZE_LIMIT {\n            return Err(StackError::Overflow);", "        if self.len() > Self::SIZE_LIMIT {\n            return Err(StackError::Overflow);", ["C05", "C08"]),
 "eval-bottom-word": ("crates/vm/src/vm.rs", "let word = match self.stack.last() {", "let word = match self.stack.first() {", ["C09"]),
 "haltif-nonzero": ("crates/vm/src/total_control_flow.rs", "    let cond = bool_from_word(cond).ok_or(TotalControlFlowError::InvalidHaltIfCondition)?;\n    if cond {", "    let cond = cond != 0;\n    if cond {", ["C09"]),
 "repeat-down-clamp": ("crates/vm/src/repeat.rs", "            counter: amount,\n", "            counter: amount.max(1),\n", ["C09"]),
 "compute-min-pc": ("crates/vm/src/compute.rs", "        pc = std::cmp::max(pc, *c_pc);", "        pc = if pc == 0 { *c_pc } else { std::cmp::min(pc.max(1), *c_pc).max(1) };", ["C10"]),
 "gas-limit-lt": ("crates/vm/src/vm.rs", "                .filter(|&spent| spent <= gas_limit.total)\n                .ok_or(ExecError(", "                .filter(|&spent| spent < gas_limit.total)\n                .ok_or(ExecError(", ["C07"]),
 "post-extern-to-pre": ("crates/vm/src/sync.rs", "            crate::state_read::key_range_ext(state.post(), stack, memory)", "            crate::state_read::key_range_ext(state.pre(), stack, memory)", ["C11"]),
 "pex-swapped": ("crates/vm/src/access.rs", "                .chain(word_4_from_u8_32(d.predicate_to_solve.contract.0))\n                .chain(word_4_from_u8_32(d.predicate_to_solve.predicate.0))", "                .chain(word_4_from_u8_32(d.predicate_to_solve.predicate.0))\n                .chain(word_4_from_u8_32(d.predicate_to_solve.contract.0))", ["C12"]),
 "jumpif-abs-revert": ("crates/vm/src/total_control_flow.rs", "usize::try_from(dist.unsigned_abs())", "usize::try_from(dist.abs())", ["C05"]),
}
