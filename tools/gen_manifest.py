#!/usr/bin/env python3
"""Regenerate /verif/MANIFEST.json from the table below (kept in one place so it stays valid)."""
import json, os, subprocess

VERIF = os.path.dirname(os.path.dirname(os.path.abspath(__file__)))
props = [json.loads(l) for l in open(os.path.join(VERIF, "properties.jsonl"))]

HOOK_COMMITS = ["a5caae7"]

# id -> (engine, technique, level text, level note, design ref)
CLAIMS = {
    "C05": ("vm", "runtime monitoring: totality monitor (catch_unwind + worker exit status) + resource-bound assertions at the after_op hook + reference-model lock-step, in overflow-checked and unchecked builds",
            "Every generated program (all 2-op programs over the boundary alphabet from 6-12 limit states, ~50k grammar/random programs, random byte strings through exec_bytecode) ran on the real VM in a dev (overflow-checked) and a release (wrapping) build; a panic, an abort of the worker, or stack>4096 / memory>10240 / repeat depth>4096 / compute depth>1 seen after any executed op (including ops inside compute children on rayon threads) would have been reported. Also run: the state-read, control-flow, access/crypto and EqSet matrices (boundary addresses and counts, halts inside loops, every entry program counter, Sha256 lengths around block switches, predicate-data slots around 1024/8192/10000 words), mid-range sizes (15..4000) for every length / depth / count operand, programs of up to ~3000 ops, Compute breadths up to 10000. The monitor keeps its own account of the compute nesting depth (top-level Vm address + depth), independent of the implementation's parent_memory field. Exploration: held on the executions produced, nothing more.",
            "trusted: the hook placement (after every step_op), catch_unwind, the reference model for wrap detection in release builds. Known finding D11 (allocator abort for Compute breadth >= 5e7) is executed on every run and printed as KNOWN-FINDING.", "5 C05"),
    "C07": ("vm", "runtime monitoring: cost-function spy (exact 128-bit sum of handed-out costs) + sequential exact-gas reference model + bounded-progress bound on cost queries",
            "Programs with loops, jumps and Compute under cost functions {0, 1, tables, 2^62, 2^63, u64::MAX} and limits placed at total-1 / total / total+1 / random: Ok(g) must equal the spy's sum and the model's total and be <= limit; Ok/Err must match the sequential model; a top-level out-of-gas must leave the machine exactly in the state before the refused op; cost queries are bounded by (2+children)(L/cmin+1). Gas probes use breadths 1-8 and, rarely, 65..4097 so that a batched join needs several rounds.",
            "termination is only checked as bounded progress in executed operations (DESIGN.md section 7); which nested error wraps an out-of-gas is not compared", "5 C07"),
    "C08": ("vm", "runtime monitoring: online lock-step comparison of stack/memory/repeat depth with a spec-derived reference model at the after_op hook, over exhaustive op x operand matrices and random programs",
            "Every plain op x every pair from a 29-value boundary alphabet x 3 machine states (empty, small, at-the-limits) plus grammar-generated programs; after every executed top-level op the whole stack and memory are compared with the model, so a wrong result, a wrongly succeeding/failing op or a clobbered unrelated word is caught at the op that caused it. Plus an EqSet matrix (0..130 elements, repeats on either side, both operand orders) and mid-range sizes (15..4000) for range lengths, depths, allocations.",
            "model arithmetic in i128; Mod(MIN,-1) unspecified; error kinds not compared (only Ok/Err and index)", "5 C08"),
    "C09": ("vm", "runtime monitoring: lock-step program-counter / repeat-counter comparison with the reference model, jump-distance and repeat-count matrices, exact gas as trip-count witness",
            "All jump distances in [-len-2, len+2] plus i64 extremes x conditions {-1,0,1,2} at several positions; repeat counts {MIN,-1,0,1,2,3,17,200|4096} x directions {-1,0,1,2}, nested pairs, nesting to 4095/4096/4097; HaltIf/PanicIf conditions; random control-heavy programs. pc is compared before every op, counters via RepeatCounter values on the stack, trip counts via exact gas at cost 1. Halts inside active loops at every counter value (the loops must stay active: final repeat depth is compared), every entry program counter of a small program including at and past its end, list and mapped form.",
            "JumpIf(cond 0, dist 0) and ComputeEnd at depth 0 are unspecified and not judged", "5 C09"),
    "C10": ("vm", "runtime monitoring: Compute compared with a sequential-loop reference model after the join, same case re-executed under rayon pools of 1..16 threads with injected delays; divergences are diagnosed by re-running children stand-alone under lock-step",
            "Compute-heavy programs (breadth -1..64, sometimes 200-3000; index-dependent allocation, halts, jumps, parent-memory reads, failing children, nested compute) x pools {1,3,8} (thorough {1,2,3,5,8,16}) x seeded delays injected from the cost spy inside the rayon tasks: parent stack/memory/pc/gas/Ok-Err must equal the sequential model; number of charged ops must equal the model's. A join matrix puts the children's combined allocation just below / at / above the memory limit (for the children alone and for parent + children) for parent memories 0..10240, breadths 1..16, three child endings and parent stacks at the limit; breadths 3000..10000 occur in every run.",
            "if every child ends at or before the Compute op the resume position is unspecified", "5 C10"),
    "C11": ("vm", "runtime monitoring: recording StateRead spy (exact request log at the API boundary) + scripted result shapes + reference memory image",
            "4 read ops x key lengths x counts {-1,0,1,2,7,MAX} x memory sizes x addresses (negative, 0, mid, end-1, end, end+1, MAX) x 8 scripted result shapes (empty, ragged, fewer/more than asked, error) with differently-answering pre and post views; the spy log must show exactly one request with the expected view/contract/key/count, memory must equal the documented layout, nothing else may change. A second matrix reads 63..2048 keys into memory that fits exactly / is one word short, with dense and sparse state. A state error (scripted failure or poisoned key) must reach the caller unchanged, after exactly one request.",
            "zero returned values with an out-of-range address is unspecified", "5 C11"),
    "C12": ("vm", "runtime monitoring: lock-step differential of access/crypto ops against solution data and the essential-hash / essential-sign crates (+ ed25519-dalek, secp256k1 directly)",
            "PredicateData* over all (slot, index, len) in and out of range for several multi-solution sets and every solution index; This*Address; PredicateExists for genuine and bit-flipped hashes, also from 8 concurrent compute children; Sha256 for every byte length 0..80 (200 thorough); genuine and corrupted ed25519 / secp256k1 signatures, recovery ids -1..5. Several solutions may share a predicate address (different or equal data); a 100-solution set; predicate-data slots of 1023..10000 words; Sha256 lengths in windows around multiples of 64 / 512 bytes up to the largest message the stack holds.",
            "SHA-256 / curve implementations themselves are trusted", "5 C12"),
    "C14": ("vm", "runtime monitoring: differential execution exec_ops vs exec_bytecode from identical states (final Vm, gas, error index) + lock-step check that the op executed at each pc is the op of the list",
            "Random, control-heavy and compute-heavy programs and the control matrices are executed through both OpAccess paths; mapping of byte strings vs parsing is covered by the codec engine stage.",
            "nested child error payloads are not compared", "5 C14"),
    "C13": ("codec", "runtime monitoring: three independent sources compared pairwise on every input - the generated codec's behaviour, the harness' own reader of asm.yml with its own table-driven decoder, and the pinned opcode table",
            "All 256 bytes x immediate lengths, all 62x62 opcode pairs, bit-walking Push immediates and every opcode byte at every immediate position (exhaustive), ~10^6 random programs / truncations / bit flips / raw strings: parse result, error kind (InvalidOpcode(b) / NotEnoughBytes), op identity by Debug path, immediate endianness, re-serialisation to the identical bytes, short constants by name. An alignment sweep puts Push-bearing probes behind every filler length 0..8300 bytes (every offset near 1024/2048/3072/4096/8192), and programs of 1000-10000 ops occur in every run.",
            "pinned/opcodes.tsv was generated from asm.yml at the baseline commit (asm.yml is unchanged since); the Debug rendering of Opcode is used as the op's name", "5 C13"),
    "C15": ("codec", "runtime monitoring: effect queries compared with a fold over the parsed program for all 64 effect subsets",
            "For every valid byte string of the codec workload (immediates filled with the six effect opcode bytes, effect ops directly after Push): bytes_contains_any for each of the 64 subsets and analyze() against the set of effect-bearing ops found by parsing; all 64 combinations of present effects occur in every run; the alignment sweep of C13 is judged here as well (long effect-free stretches followed by a Push whose immediate is made of effect / Push opcode bytes).",
            "the six effect-bearing ops are identified by their spec names", "5 C15"),
    "C17": ("formats", "runtime monitoring: addresses recomputed by an independent encoder (own predicate encoder, own minimal postcard writer, own sort+concat) + metamorphic permutation / perturbation checks + bucketing of all pre-hash byte strings of a run",
            "Per round a predicate, program, contract, solution and set within limits: address == SHA-256(harness-computed pre-hash bytes); encoded_size == actual length; all helper entry points agree; permutation of predicates / solutions leaves the address unchanged; every single-field or near-collision perturbation (word moved between key and value or between slots, duplicated member, salt bit) changes the hashed bytes; no two distinct values of the run share pre-hash bytes. Exhaustive: all predicates of <= 3 nodes x <= 3 edges over an edge_start alphabet; member counts include 99/100/101/130, predicate sizes include 17..513 and 999/1000 nodes; sets may list a solution twice.",
            "SHA-256 collision resistance; predicates above the limits (all-zero address by design) are out of scope", "5 C17"),
    "C18": ("formats", "runtime monitoring: round-trip identities over random and boundary values through every codec (wire, words/bytes/hex, Display/FromStr, JSON, postcard) + own slice rule for node_edges",
            "decode(encode(x)) == x for predicates (0..1000 nodes/edges, any edge_start) and mutation lists; words<->bytes<->hex; 32/64/65-byte array conversions in both directions; JSON and postcard round trips of Contract, SignedContract, Predicate, Program, Solution, SolutionSet, Mutation, ContentAddress, PredicateAddress, Signature; hex-string form in human-readable formats; legacy field names; node_edges(i) against the documented slice for every index. Exhaustive: all lists of <= 3 mutations with key/value lengths 0..2; lists of 17..1000 mutations and predicates of 17..600 nodes/edges occur in every run.",
            "serde_json and postcard themselves are trusted", "5 C18"),
    "C01": ("scen", "runtime monitoring: real two-pass checker vs an independent sequential graph evaluator; every node's actual input observed at the VM hook, beacon event log checked offline (exactly-once, after-parents), renumbered twin graphs",
            "Per scenario (random DAGs in topological / reversed / random numberings, marker and empty-slice leaves, multi-edges, raw malformed and cyclic encodings; programs that work on any input; 1-5 solutions; both collect_all_failures values): Ok/Err, failing solution and node indices, total gas and computed mutations must equal the reference; each node must start exactly once, after its parents, from exactly the concatenation of its parents' results in ascending order (observed at the after_op hook, compared word for word); malformed/cyclic graphs must be rejected without any node of that solution running to acceptance.",
            "reference evaluator (harness/vh/src/scen.rs) executes node programs with the real VM - the VM has its own checks (C05-C12); tolerances of DESIGN.md 5/C01-T (nodes downstream of a failure, first decoding error)", "5 C01"),
    "C02": ("scen", "runtime monitoring: the same scenario re-executed under rayon pools of 1..16 threads with seeded delays injected from inside the tasks (state spy); results compared exactly; distinct task start/end orders counted from the beacon log",
            "Each scenario (wider graphs, up to 8 solutions) runs under pools {1,2,5,16} x 2 delay seeds (thorough {1,2,3,5,8,16} x 4): Ok/Err, failing solution and node indices, gas and computed mutations in order must be identical across all runs and equal to the sequential reference; Compute-level determinism under pools is covered by C10's pool matrix. The order in which failing solutions / nodes are reported is part of the compared result; check_set_predicates and check_predicate (called once per solution and run mode) must agree; forks inside loops whose children leave with a loop of their own still active; sets of 17..40 solutions.",
            "error payloads are not compared (rayon returns an arbitrary child's error); a run observing fewer than 10 distinct task orders is inconclusive", "5 C02"),
    "C03": ("scen", "runtime monitoring: observed-value beacons (the words a program just read travel out through a zero-count read) compared with the harness' overlay map; pass separation and exactly-once from the event log",
            "Scenarios with post/pre readers at roots, middle nodes and leaves (own and external contracts, counts 0-4, key lengths 0-2, keys at word carry, deletions, declared and computed mutations, several solutions per contract): every observed range must equal overlay(declared + first-pass computed, empty = deleted, else pre-state); pre-reads must not see mutations; no post-dependent node may start before the last first-pass node of any solution has ended; results are compared with the reference evaluated over the harness' own overlay. Readers may sit behind control flow (a Halt that is jumped over); ranges of 65..600 keys; the single-predicate entry point is driven too. State fault injection: reads covering a poisoned key fail; a program that gets a value where the reference's read fails is reported (read-should-have-failed).",
            "conflicting values for one contract/key from different solutions are the D2 class (C04's known finding): overlay order is then the set order", "5 C03"),
    "C04": ("scen", "runtime monitoring: metamorphic re-execution of every set under reversal, rotation and random permutation of its solutions",
            "Content address, check_set verdict, two-pass verdict, total gas and computed mutations per solution (mapped through the permutation) must be identical; sets in which two solutions give one contract/key different values are detected by the harness and carry the D2 signature (KNOWN-FINDING, canonical witness executed every run); any other order dependence is a VIOLATION. Sets may list the same solution twice (adjacent or not) and have 1-6, 17-40 or 100 solutions.",
            "known finding D2 is recorded in known_findings.json and not repaired (see DESIGN.md section 4)", "5 C04"),
    "C06": ("total+scen", "runtime monitoring: totality monitor (catch_unwind with panic location, worker exit status under an 8 GiB address-space cap, write-ahead case log) over exhaustive short and random hostile inputs",
            "Every word string of length <= 4 over a 9-value boundary alphabet plus mutated encodings through decode_mutation(s); truncated / bit-flipped / count-lying / random bytes through Predicate::decode and all accessors, from_bytes, BytecodeMapped, effects; over-limit sets and contracts through every validator; the two-pass checker on scenarios with 50 % malformed or cyclic graph encodings, 40 % malformed data outputs and 30 % hostile read counts (-1 .. i64::MAX) on contracts present and absent in the post-state.",
            "documented preconditions are honoured (check_set_predicates gets validated sets; GetProgram/GetPredicate are total)", "5 C06"),
    "C16": ("limits+scen", "runtime monitoring: validators compared with the acceptance predicate written from the property text at 0 / 1 / limit-1 / limit / limit+1 of every dimension; every set returned by the mutation-computing check is re-validated",
            "~10^6 generated sets / predicates / contracts / signed contracts with one dimension at a boundary; ~12 000 scenarios whose computed mutations overlap declared keys, each other and second-pass outputs: the returned set must pass check_set_state_mutations. The item carrying a boundary value sits at a random position (solution, slot, mutation); mid-range sizes (16..4097) and two dimensions at once occur.",
            "recoverability of a signature is decided with secp256k1 directly", "5 C16"),
    "C19": ("sign", "runtime monitoring: differential sign/recover/verify with tamper matrix, malformed-signature totality, injectivity bucketing of word encodings, VM RecoverSecp256k1 on the encoded words",
            "30 000 keys x contracts: recover(sign(c, sk)) == pk(sk) under any predicate order; after any content change recovery no longer yields the signer; recovery ids 0..255, bit flips, all-ones, zero and random signatures give errors (never panics) consistently across recover / verify / check_signed_contract; key and signature words equal the documented layout, are pairwise distinct, and the VM op consumes/produces exactly them. Contracts of up to 100 predicates and with a predicate at the validator's limits (up to 1000 nodes/edges) occur in every run.",
            "secp256k1 itself is trusted", "5 C19"),
    "C20": ("lock", "runtime monitoring: unique-id append-only histories with call/return stamps checked offline for a single total order consistent with observed predecessors and real time; Miri many-seeds (data races, UB, deadlock); TSan in the thorough tier",
            "~3000 short native histories with 2-8 threads, 1-3 locks and closures of varying duration plus 16-thread histories of 200 000 ops; 8 Miri schedules (64 thorough) of 3 threads x 6 ops; overlap flag, lost/duplicated/torn updates, wrong return values, real-time order; a process that consumes no CPU for 30 s with operations outstanding is a deadlock. Closed bursts (persistent workers released together, 1-3 calls each, then a barrier; 10^5-10^6 bursts) with a progress-based stall verdict and a probe call; a poisoning workload (a closure makes half of an update, lingers while callers queue up, and panics; afterwards every call must return or unwind and nobody may be let in on top of the half-applied update) natively and under Miri; a progress monitor for steady traffic.",
            "std::sync::Mutex is trusted; non-reentrant use only", "5 C20"),
}

NOT_YET = "check not built yet (work in progress; technique family unchanged: runtime monitoring)"

checks, na = [], []
for p in props:
    pid = p["id"]
    if pid in CLAIMS:
        engine, technique, text, note, ref = CLAIMS[pid]
        checks.append({
            "property_id": pid,
            "quick_cmd": f"./check {pid} --tier quick",
            "thorough_cmd": f"./check {pid} --tier thorough",
            "evidence_file": f"/verif/evidence/{pid}.json",
            "replay_cmd_template": f"./check {pid} --replay {{path}}",
            "engine": engine,
            "level_claimed": {"category": "exploration", "text": text, "design_ref": ref},
            "level_note": note,
            "technique": technique,
        })
    else:
        na.append({"property_id": pid, "reason": NOT_YET})

manifest = {
    "version": 1,
    "setup_cmd": "./setup.sh",
    "hooks": {
        "guard": "--cfg essential_base_verif",
        "enable": "RUSTFLAGS=\"--cfg essential_base_verif\" (set by /verif/check for every harness build; the harness has path dependencies on /repo/crates/*)",
        "baseline_off_cmd": "cd /repo && cargo test --workspace --no-fail-fast --offline",
        "source_commits": HOOK_COMMITS,
        "add_only": True,
    },
    "engines": [
        {"name": "vm", "path": "harness/vh/src/vmengine.rs", "serves_properties": ["C05", "C07", "C08", "C09", "C10", "C11", "C12", "C14"],
         "kind_free_text": "real Vm::exec under the after_op monitor, judged against a spec-derived reference model"},
        {"name": "codec", "path": "harness/vh/src/codec.rs", "serves_properties": ["C13", "C14", "C15"],
         "kind_free_text": "byte strings through from_bytes / to_bytes / BytecodeMapped / effects, judged against an own asm.yml reader and the pinned table"},
        {"name": "formats", "path": "harness/vh/src/formats.rs", "serves_properties": ["C17", "C18"],
         "kind_free_text": "hash / types crates driven with random and boundary values, judged against independent encoders and round-trip identities"},
        {"name": "scen", "path": "harness/vh/src/scenengine.rs", "serves_properties": ["C01", "C02", "C03", "C04", "C06", "C16"],
         "kind_free_text": "real check_and_compute_solution_set_two_pass under the state spy (beacons) and the VM-hook node spy, judged against a sequential reference evaluator"},
        {"name": "total", "path": "harness/vh/src/total.rs", "serves_properties": ["C06"], "kind_free_text": "decoders and validators on hostile input under the totality monitor"},
        {"name": "limits", "path": "harness/vh/src/limits.rs", "serves_properties": ["C16"], "kind_free_text": "validators vs the documented acceptance predicate at the limits"},
        {"name": "sign", "path": "harness/vh/src/signeng.rs", "serves_properties": ["C19"], "kind_free_text": "sign / recover / verify differential with tamper matrix"},
        {"name": "lock", "path": "harness/vh-lock/src/main.rs", "serves_properties": ["C20"], "kind_free_text": "contention histories on StdLock with an offline history checker; native, Miri, TSan"},
    ],
    "checks": checks,
    "notes": "All checks: exit 0 held / exit 1 with VIOLATION lines / exit 2 inconclusive (never a VIOLATION). VERIF_SEED and VERIF_TIER are honoured. Known findings: known_findings.json (D2 for C04, D11 for C05).",
    "not_applicable": na,
}
with open(os.path.join(VERIF, "MANIFEST.json"), "w") as f:
    json.dump(manifest, f, indent=1)
print(f"{len(checks)} checks, {len(na)} not claimed")
