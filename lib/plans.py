"""Per-property plans: which engine stages run in which build regime, floors, evidence text."""

ALL_OPS = None


def vh(name, engine, profile, scale=1.0, **kw):
    d = {"name": name, "engine": engine, "profile": profile, "scale": scale, "env": {"RAYON_NUM_THREADS": "2"}}
    d.update(kw)
    return d


def vm_plan(quick_dev_scale=0.2, thorough_extra=(), quick_scale=1.0):
    return {
        "quick": [vh("vm-release", "vm", "release", quick_scale, timeout=600),
                  vh("vm-dev", "vm", "dev", quick_dev_scale * quick_scale, timeout=600)],
        "thorough": [vh("vm-release", "vm", "release", 1.0, timeout=3000),
                     vh("vm-relchk", "vm", "relchk", 0.3, timeout=3000),
                     vh("vm-dev", "vm", "dev", 0.05, timeout=3000)] + list(thorough_extra),
    }


PLANS = {
    "C05": vm_plan(),
    # quick scales: chosen so that each quick check takes roughly 30-60 s on an idle 16-core box
    "C07": vm_plan(quick_scale=8.0),
    "C08": vm_plan(),
    "C09": vm_plan(quick_scale=5.0),
    "C10": vm_plan(),
    "C11": vm_plan(quick_scale=10.0),
    "C12": vm_plan(quick_scale=8.0),
    "C14": vm_plan(),
}

import os as _os
_PINNED = ["--pinned", _os.path.join(_os.path.dirname(_os.path.dirname(_os.path.abspath(__file__))), "pinned", "opcodes.tsv")]


def codec_plan(qs=5.0):
    return {"quick": [vh("codec-release", "codec", "release", qs, timeout=600, args=_PINNED), vh("codec-dev", "codec", "dev", 0.1 * qs, timeout=600, args=_PINNED)],
            "thorough": [vh("codec-release", "codec", "release", 1.0, timeout=3000, args=_PINNED), vh("codec-relchk", "codec", "relchk", 0.2, timeout=3000, args=_PINNED)]}


PLANS["C13"] = codec_plan()
PLANS["C15"] = codec_plan()
for _t in ("quick", "thorough"):
    PLANS["C14"][_t] = PLANS["C14"][_t] + [vh("codec-release", "codec", "release", 1.0, timeout=3000, args=_PINNED)]

def simple_plan(engine, dev_scale=0.1, qs=1.0):
    return {"quick": [vh(engine + "-release", engine, "release", qs, timeout=600), vh(engine + "-dev", engine, "dev", dev_scale * qs, timeout=600)],
            "thorough": [vh(engine + "-release", engine, "release", 1.0, timeout=3000), vh(engine + "-relchk", engine, "relchk", 0.2, timeout=3000)]}


PLANS["C17"] = simple_plan("formats", qs=4.0)
PLANS["C18"] = simple_plan("formats", qs=3.0)

def scen_plan(dev_scale=0.1, pool_env=None, quick_scale=1.0):
    env = {"RAYON_NUM_THREADS": "4"}
    q = [vh("scen-release", "scen", "release", quick_scale, timeout=900, env=env), vh("scen-dev", "scen", "dev", dev_scale * quick_scale, timeout=900, env=env)]
    t = [vh("scen-release", "scen", "release", 1.0, timeout=3400, env=env), vh("scen-relchk", "scen", "relchk", 0.2, timeout=3400, env=env)]
    return {"quick": q, "thorough": t}


for _p in ("C01", "C03", "C04"):
    PLANS[_p] = scen_plan(quick_scale=4.0)
PLANS["C06"] = {
    "quick": [vh("total-release", "total", "release", 2.0, timeout=900), vh("total-dev", "total", "dev", 0.4, timeout=900)] + scen_plan(quick_scale=2.0)["quick"],
    "thorough": [vh("total-release", "total", "release", 1.0, timeout=3400), vh("total-relchk", "total", "relchk", 0.3, timeout=3400)] + scen_plan()["thorough"],
}
PLANS["C02"] = scen_plan(quick_scale=2.5)
for _t in ("quick", "thorough"):
    for _s in PLANS["C02"][_t]:
        _s["shards"] = 4          # each worker drives pools of up to 16 threads itself

PLANS["C16"] = {t: [vh("limits-release", "limits", "release", 1.0, timeout=900), vh("limits-dev", "limits", "dev", 0.1, timeout=900)] + scen_plan()[t] for t in ("quick", "thorough")}
PLANS["C19"] = simple_plan("sign", 0.1, qs=8.0)
PLANS["C20"] = {
    "quick": [
        {"name": "lock-native", "kind": "lock_native", "profile": "release", "timeout": 600,
         "runs": [["--histories", 3000, "--threads", 8, "--locks", 3, "--ops", 30, "--vary"],
                  ["--histories", 1, "--threads", 16, "--locks", 1, "--ops", 12500],
                  ["--histories", 60, "--threads", 16, "--locks", 4, "--ops", 200],
                  # closed bursts: persistent workers released together, one or two calls each per round
                  ["--histories", 2, "--bursts", 150000, "--threads", 6, "--locks", 1, "--per-round", 1],
                  ["--histories", 1, "--bursts", 60000, "--threads", 12, "--locks", 2, "--per-round", 2],
                  ["--histories", 1, "--bursts", 100000, "--threads", 3, "--locks", 1, "--per-round", 1],
                  # a closure panics inside apply; afterwards every call must still return or unwind (no hang)
                  ["--histories", 200, "--threads", 6, "--locks", 1, "--ops", 20, "--poison"]]},
        {"name": "lock-miri", "kind": "lock_miri", "shards": 4, "seeds_per_shard": 2, "timeout": 900,
         "args": ["--histories", 1, "--threads", 3, "--locks", 1, "--ops", 6]},
        {"name": "lock-miri-poison", "kind": "lock_miri", "shards": 2, "seeds_per_shard": 1, "timeout": 900,
         "args": ["--histories", 1, "--threads", 3, "--locks", 1, "--ops", 4, "--poison"]},
    ],
    "thorough": [
        {"name": "lock-native", "kind": "lock_native", "profile": "release", "timeout": 3000,
         "runs": [["--histories", 60000, "--threads", 8, "--locks", 3, "--ops", 30, "--vary"],
                  ["--histories", 4, "--threads", 16, "--locks", 1, "--ops", 80000],
                  ["--histories", 2000, "--threads", 16, "--locks", 4, "--ops", 200],
                  ["--histories", 20000, "--threads", 2, "--locks", 1, "--ops", 10],
                  ["--histories", 12, "--bursts", 400000, "--threads", 6, "--locks", 1, "--per-round", 1],
                  ["--histories", 6, "--bursts", 200000, "--threads", 12, "--locks", 2, "--per-round", 2],
                  ["--histories", 6, "--bursts", 400000, "--threads", 3, "--locks", 1, "--per-round", 1],
                  ["--histories", 4, "--bursts", 200000, "--threads", 16, "--locks", 4, "--per-round", 3],
                  ["--histories", 5000, "--threads", 6, "--locks", 1, "--ops", 20, "--poison"],
                  ["--histories", 500, "--threads", 16, "--locks", 1, "--ops", 50, "--poison"]]},
        {"name": "lock-miri", "kind": "lock_miri", "shards": 16, "seeds_per_shard": 4, "timeout": 3000,
         "args": ["--histories", 1, "--threads", 3, "--locks", 2, "--ops", 6]},
        {"name": "lock-miri-poison", "kind": "lock_miri", "shards": 8, "seeds_per_shard": 2, "timeout": 3000,
         "args": ["--histories", 1, "--threads", 3, "--locks", 1, "--ops", 4, "--poison"]},
        {"name": "lock-tsan", "kind": "lock_tsan", "timeout": 3000,
         "runs": [["--histories", 2000, "--threads", 8, "--locks", 3, "--ops", 30, "--vary"],
                  ["--histories", 1, "--threads", 16, "--locks", 1, "--ops", 20000]]},
    ],
}

# sanitizer stages (thorough tier): TSan on the parallel workloads, a few cases under Miri
PLANS["C10"]["thorough"] = PLANS["C10"]["thorough"] + [
    {"name": "vm-tsan", "kind": "vh_tsan", "engine": "vm", "scale": 0.02, "shards": 4, "timeout": 3000},
    {"name": "vm-miri", "kind": "vh_miri", "engine": "vm", "scale": 0.0015, "shards": 8, "timeout": 3300}]
PLANS["C02"]["thorough"] = PLANS["C02"]["thorough"] + [
    {"name": "scen-tsan", "kind": "vh_tsan", "engine": "scen", "scale": 0.02, "shards": 2, "timeout": 3000},
    {"name": "scen-miri", "kind": "vh_miri", "engine": "scen", "scale": 0.003, "shards": 8, "timeout": 3300}]

# Miri (tree borrows) over the decoders and codecs with hostile input: the repository itself has no unsafe code, so this
# watches the dependencies it hands untrusted bytes to (postcard, serde_json, hex, sha2) and the generated asm codec
PLANS["C06"]["thorough"] = PLANS["C06"]["thorough"] + [{"name": "total-miri", "kind": "vh_miri", "engine": "total", "scale": 0.0004, "shards": 8, "timeout": 3300}]
PLANS["C13"]["thorough"] = PLANS["C13"]["thorough"] + [{"name": "codec-miri", "kind": "vh_miri", "engine": "codec", "scale": 0.00004, "shards": 8, "timeout": 3300, "args": _PINNED}]
PLANS["C18"]["thorough"] = PLANS["C18"]["thorough"] + [{"name": "formats-miri", "kind": "vh_miri", "engine": "formats", "scale": 0.0004, "shards": 8, "timeout": 3300}]
PLANS["C12"]["thorough"] = PLANS["C12"]["thorough"] + [{"name": "vm-memcheck", "kind": "vh_valgrind", "engine": "vm", "scale": 0.3, "shards": 8, "timeout": 3000}]
PLANS["C19"]["thorough"] = PLANS["C19"]["thorough"] + [{"name": "sign-memcheck", "kind": "vh_valgrind", "engine": "sign", "scale": 0.1, "shards": 8, "timeout": 3000}]

# D11 witness runs in its own subprocess (C05 only)
for tier in ("quick", "thorough"):
    PLANS["C05"][tier] = PLANS["C05"][tier] + [{"name": "d11-witness", "kind": "d11", "profile": "release"}]


def ops_floor(group_prefixes, need_fail=True, never_fail=("TotalControlFlow(Halt)", "Compute(ComputeEnd)", "Access(ThisAddress)x")):
    def test(m, tier):
        c = m["counters"]
        missing = []
        for k, v in c.items():
            if not k.startswith("op_ok."):
                continue
            name = k[len("op_ok."):]
            if not any(name.startswith(p) for p in group_prefixes):
                continue
            if v == 0:
                missing.append(name + " never succeeded")
            if need_fail and name not in never_fail and c.get("op_failed." + name, 0) == 0:
                missing.append(name + " never failed")
        if not any(k.startswith("op_ok.") for k in c):
            return False, "the after_op hook observed nothing"
        return (not missing), "; ".join(missing[:8])
    return test


def counter_floor(key, minimum):
    def test(m, tier):
        v = m["counters"].get(key, 0)
        return v >= minimum, f"{key} = {v} < {minimum}"
    return test


FLOORS = {
    "C05": [("every op executed successfully and unsuccessfully", ops_floor(("",))),
            ("lock-step active", counter_floor("lockstep.ops_checked", 10000))],
    "C08": [("every data op executed successfully and unsuccessfully",
             ops_floor(("Stack(", "Pred(", "Alu(", "Memory(", "ParentMemory("))),
            ("lock-step active", counter_floor("lockstep.ops_checked", 10000))],
    "C09": [("eval outcomes", lambda m, tier: (all(m["counters"].get(k, 0) >= 20 for k in ("eval.true", "eval.false", "eval.invalid", "eval.exec_error")), "eval true/false/invalid/exec-error not all seen 20 times")),
            ("every control op executed successfully and unsuccessfully",
             ops_floor(("TotalControlFlow(", "Stack(Repeat", "Access(RepeatCounter"))),
            ("lock-step active", counter_floor("lockstep.ops_checked", 10000))],
    "C10": [("compute ops executed", ops_floor(("Compute(",))),
            ("cases with children", counter_floor("cases_with_compute_children", 100))],
    "C11": [("state read ops executed", ops_floor(("StateRead(",))),
            ("requests observed", counter_floor("reads.observed", 100))],
    "C07": [("out-of-gas outcomes seen", counter_floor("outcome.err.out_of_gas", 50)),
            ("ok outcomes seen", counter_floor("outcome.ok", 50))],
    "C12": [("access and crypto ops executed", ops_floor(("Access(", "Crypto(")))],
    "C14": [("mapped runs", counter_floor("mapped.runs", 1000)), ("byte strings mapped", counter_floor("mapped.ok", 1000))],
    "C01": [("node inputs observed", counter_floor("node_inputs_compared", 10000)), ("accepted sets", counter_floor("outcome.ok", 500)),
            ("rejected graphs", counter_floor("outcome.fail.invalid_graph", 50)), ("deferred", counter_floor("scenarios_with_deferred_nodes", 200)),
            ("graph shapes", lambda m, tier: (len(m["sets"].get("graph_shapes", [])) >= 30, "fewer than 30 distinct graph shapes"))],
    "C02": [("distinct interleavings", counter_floor("distinct_task_orders_this_shard", 10)), ("pool matrix", counter_floor("scenarios_under_pool_matrix", 100))],
    "C03": [("observed values", counter_floor("observed_value_beacons", 5000)), ("deferred", counter_floor("scenarios_with_deferred_nodes", 500)),
            ("accepted sets", counter_floor("outcome.ok", 500))],
    "C04": [("permutations", counter_floor("permutations", 1000))],
    "C16": [("returned sets revalidated", counter_floor("returned_sets_revalidated", 500)), ("mutation failures", counter_floor("outcome.fail.mutations", 20))],
    "C06": [("word strings rejected", counter_floor("words.rejected", 1000)), ("word strings decoded", counter_floor("words.decoded", 1000)),
            ("predicate byte strings", counter_floor("predicate_bytes.rejected", 1000)), ("hostile scenarios", counter_floor("workload.random", 1000)),
            ("malformed graphs", counter_floor("outcome.fail.invalid_graph", 100)), ("malformed outputs", counter_floor("outcome.fail.mutations", 50))],
    "C19": [("tamperings", counter_floor("tamperings", 1000)), ("malformed signatures", counter_floor("malformed_signatures", 1000)),
            ("vm recoveries", counter_floor("vm_recoveries", 500))],
    "C20": [("distinct interleavings", counter_floor("distinct_final_orders", 10)), ("native ops", counter_floor("native.ops", 100000)),
            ("miri seeds ran", counter_floor("miri.histories", 4))],
    "C17": [("permutations", counter_floor("permutations", 1000)), ("perturbations", counter_floor("perturbations", 1000))],
    "C18": [("serde round trips", counter_floor("serde_roundtrips", 10000)), ("legacy names", counter_floor("legacy_names_accepted", 100)),
            ("node_edges", counter_floor("node_edges_checked", 1000))],
    "C13": [("valid strings", counter_floor("bytes.valid", 1000)), ("invalid-opcode strings", counter_floor("bytes.invalid_opcode", 100)),
            ("truncated strings", counter_floor("bytes.truncated", 100)), ("short names", counter_floor("short_names_checked", 62))],
    "C15": [("programs with effects", counter_floor("effects.programs_with_effects", 1000)),
            ("all 64 effect sets seen", lambda m, tier: (len(m["sets"].get("effects.sets_seen", [])) == 64, "not all 64 effect combinations occurred"))],
}

VM_RULE = ("cases = (program, initial stack/memory/parent-memory/repeat state, solution data, pre/post state views, cost function, "
           "gas limit, pool size), generated by enumeration (op x operand matrices, all short programs) and by a fragment grammar with "
           "seeded mutations; each is first run on the reference model, then on the real VM under the after_op lock-step monitor. "
           "A case is non-trivial if it is specified (model did not answer Unspecified) and either is a matrix/short-program case whose "
           "program contains a non-Push op, or executed >= 3 ops and contains a non-Push op; distinct = distinct hash of "
           "(bytecode, initial stack, initial memory, limit, repeat depth, child flag), counted across all shards and regimes.")

RULES = {p: VM_RULE for p in ("C05", "C07", "C08", "C09", "C10", "C11", "C12", "C14")}
CODEC_RULE = ("cases = byte strings: all 256 opcode bytes x immediate lengths, all 62x62 opcode pairs, Push immediates with walking bits and with every "
              "opcode byte at every position (these three sub-spaces exhaustively), random programs over all ops with hostile immediates, all their "
              "truncations, single bit flips and raw random bytes. Non-trivial = yields at least one op before the end/error (>= 2 ops when valid); "
              "distinct = distinct byte string (FNV hash), counted across shards.")
SCEN_RULE = ("a scenario = 1-3 predicates (random DAG: chains, fans, random, multi-edges; numbered topologically, reversed or randomly; leaves as markers or empty "
             "slices; some raw/malformed encodings), node programs from templates that work on any input (producers, pre/post readers with observed-value beacons, "
             "constraint / data / sloppy leaves, risky ops), 1-5 solutions with declared mutations, a pre-state. Each is evaluated by the sequential reference and by "
             "the real two-pass checker; verdict, failing indices, gas, computed mutations, every node's observed input (VM hook) and the beacon order are compared. "
             "Non-trivial = specified and some predicate has >= 2 nodes and >= 1 edge; distinct = hash of the whole scenario.")
for _p in ("C01", "C02", "C03", "C04", "C16"):
    RULES[_p] = SCEN_RULE
RULES["C06"] = ("decoder stage: every word string of length <= 4 over a 9-value boundary alphabet (exhaustive) plus mutated valid encodings and random strings through "
               "decode_mutation(s); truncated / bit-flipped / count-lying / random byte strings through Predicate::decode and all accessors, from_bytes, BytecodeMapped, "
               "effects; over-limit sets and contracts through the validators. Checker stage: " + SCEN_RULE + " with 50 % raw graph encodings, 40 % malformed data outputs "
               "and 30 % hostile read counts (-1 .. i64::MAX). Non-trivial = input of >= 2 words / >= 4 bytes; distinct by content hash.")
RULES["C16"] = ("limits stage: each case puts one dimension (solutions, slots, slot length, total mutations, key length, value length, duplicate key, same key in two "
               "solutions; nodes, edges, predicates, one invalid member; genuine / corrupted signature) at 0 / 1 / limit-1 / limit / limit+1 and keeps the rest small; the "
               "oracle is the acceptance predicate written from the property text. Distinct = distinct dimension tuple. Checker stage: " + SCEN_RULE)
RULES["C19"] = ("one case = a random secret key (incl. 1..5 and just below the group order) and a random contract: sign/recover/verify, a permutation of the predicates, two "
               "content tamperings, three malformed signatures (recovery id 0..255, bit flips, all-ones, zeros, random), word encodings checked against the documented "
               "layout and bucketed for injectivity, the VM's RecoverSecp256k1 run on the encoded words; plus raw 65-byte strings. Distinct = distinct public key.")
RULES["C20"] = ("a history = T threads (2..16) each applying read-modify-write closures of varying duration (yield / spin / sleep 0-50us) to 1..4 StdLocks; unique ids, call/return "
               "stamps from one global counter; the offline checker demands a single total order per lock consistent with every observed predecessor and with real time. "
               "Native: thousands of short histories plus long ones; Miri: one schedule per seed (data races, UB and deadlocks reported by the interpreter); thorough adds a "
               "ThreadSanitizer build. Closed bursts: persistent workers released together round after round (1-3 calls each, then a barrier), so a caller parked on a free "
               "lock cannot be rescued by later traffic; a stall is declared on progress (no call returned for 20 s while all other workers idle), then probed with an unrelated call. "
               "Non-trivial/distinct = distinct final order of thread ids (measured per run).")
RULES["C17"] = ("one round = a random predicate, program, contract, solution and solution set (every 50th round at the limits: 1000 nodes/edges, 100 predicates, "
               "100 solutions), each with a random permutation and a single-field / near-collision perturbation; all pre-hash byte strings of a run are bucketed "
               "to look for two distinct values hashing the same bytes. Non-trivial = predicate with >= 2 nodes+edges, contract with >= 2 predicates, every solution; "
               "distinct by pre-hash bytes.")
RULES["C18"] = ("one round = a random predicate (wire codec + node_edges for every index and two beyond), a mutation list, words/bytes/hex, 32/64/65-byte arrays, "
               "Display/FromStr, JSON and postcard round trips of the ten public types, legacy field names. Non-trivial = predicate with >= 2 nodes or non-empty "
               "mutation list; distinct by encoding.")
RULES["C13"] = CODEC_RULE
RULES["C15"] = CODEC_RULE
RULES["C14"] = VM_RULE + " Plus the codec stage: " + CODEC_RULE

ASSUMPTIONS = {
    "*": ["rustc/std, rayon, serde_json are trusted", "the reference models and the tolerances of DESIGN.md section 6",
          "held = no refutation among the executions produced; nothing is claimed about inputs or schedules not produced"],
    "C12": ["sha2, ed25519-dalek, secp256k1 and the essential-hash / essential-sign crates are the reference for the crypto ops"],
}
