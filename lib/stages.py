"""Special stages: known-finding witnesses and sanitizer runs (Miri, TSan, valgrind)."""
import json
import os
import resource
import subprocess
import time


def _limit(gib):
    def f():
        lim = int(gib * (1 << 30))
        resource.setrlimit(resource.RLIMIT_AS, (lim, lim))
        resource.setrlimit(resource.RLIMIT_CORE, (0, 0))
    return f


def run_special(kind, stage, prop, tier, seed, workdir, build, env, log):
    return globals()["stage_" + kind](stage, prop, tier, seed, workdir, build, env, log)


def stage_d11(stage, prop, tier, seed, workdir, build, env, log):
    """Canonical witness of known finding D11, in its own subprocess under a 2 GiB address-space cap."""
    binary, err = build(stage["profile"])
    if binary is None:
        return {"inconclusive": [err]}
    t0 = time.time()
    breadth = 60_000_000
    p = subprocess.Popen([binary, "d11", "--breadth", str(breadth)], stdout=subprocess.PIPE, stderr=subprocess.STDOUT,
                         preexec_fn=_limit(2), env=env)
    try:
        out, _ = p.communicate(timeout=300)
    except subprocess.TimeoutExpired:
        p.kill()
        p.communicate()
        return {"inconclusive": ["D11 witness: watchdog fired"], "info": {"stage": "d11-witness", "result": "timeout"}}
    text = out.decode("utf-8", "replace")
    info = {"stage": "d11-witness", "breadth": breadth, "address_space_cap_gib": 2, "exit_status": p.returncode,
            "wall_s": round(time.time() - t0, 1), "output_tail": text[-200:]}
    res = {"info": info, "reports": []}
    aborted = p.returncode in (-6, 134) and "memory allocation of" in text
    if aborted:
        res["reports"].append({"engine": "d11", "evaluations": 1, "counters": {"d11.witness_aborted": 1}, "maxima": {}, "sets": {},
                               "samples": [], "inconclusive": [], "wall_s": info["wall_s"],
                               "violations": [{"property": "C05", "kind": "worker-abort",
                                               "detail": f"PUSH {breadth}; COM with gas limit 10 aborted in the allocator: {text[-160:].strip()}",
                                               "case": {"engine": "d11", "breadth": breadth,
                                                        "signature": "D11:allocator-abort-compute-breadth>=5e7"}}]})
    elif p.returncode == 0:
        res["reports"].append({"engine": "d11", "evaluations": 1, "counters": {"d11.witness_returned": 1}, "maxima": {}, "sets": {},
                               "samples": [], "inconclusive": [], "wall_s": info["wall_s"], "violations": []})
        log(f"[d11] witness returned normally: {text.strip()[-120:]}")
    else:
        res["inconclusive"] = [f"D11 witness ended with unexpected status {p.returncode}: {text[-200:]}"]
    return res
