"""Special stages: known-finding witnesses and sanitizer runs (Miri, TSan, valgrind)."""
import json
import os
import resource
import subprocess
import time


def _limit(gib):
    def f():
        lim = int(gib * (1 << 30))
        resource.setrlimit(resource.RLIMIT_AS, (lim, lim))
        resource.setrlimit(resource.RLIMIT_CORE, (0, 0))
    return f


def run_special(kind, stage, prop, tier, seed, workdir, build, env, log):
    return globals()["stage_" + kind](stage, prop, tier, seed, workdir, build, env, log)


def stage_d11(stage, prop, tier, seed, workdir, build, env, log):
    """Canonical witness of known finding D11, in its own subprocess under a 2 GiB address-space cap."""
    binary, err = build(stage["profile"])
    if binary is None:
        return {"inconclusive": [err]}
    t0 = time.time()
    breadth = 60_000_000
    p = subprocess.Popen([binary, "d11", "--breadth", str(breadth)], stdout=subprocess.PIPE, stderr=subprocess.STDOUT,
                         preexec_fn=_limit(2), env=env)
    try:
        out, _ = p.communicate(timeout=300)
    except subprocess.TimeoutExpired:
        p.kill()
        p.communicate()
        return {"inconclusive": ["D11 witness: watchdog fired"], "info": {"stage": "d11-witness", "result": "timeout"}}
    text = out.decode("utf-8", "replace")
    info = {"stage": "d11-witness", "breadth": breadth, "address_space_cap_gib": 2, "exit_status": p.returncode,
            "wall_s": round(time.time() - t0, 1), "output_tail": text[-200:]}
    res = {"info": info, "reports": []}
    aborted = p.returncode in (-6, 134) and "memory allocation of" in text
    if aborted:
        res["reports"].append({"engine": "d11", "evaluations": 1, "counters": {"d11.witness_aborted": 1}, "maxima": {}, "sets": {},
                               "samples": [], "inconclusive": [], "wall_s": info["wall_s"],
                               "violations": [{"property": "C05", "kind": "worker-abort",
                                               "detail": f"PUSH {breadth}; COM with gas limit 10 aborted in the allocator: {text[-160:].strip()}",
                                               "case": {"engine": "d11", "breadth": breadth,
                                                        "signature": "D11:allocator-abort-compute-breadth>=5e7"}}]})
    elif p.returncode == 0:
        res["reports"].append({"engine": "d11", "evaluations": 1, "counters": {"d11.witness_returned": 1}, "maxima": {}, "sets": {},
                               "samples": [], "inconclusive": [], "wall_s": info["wall_s"], "violations": []})
        log(f"[d11] witness returned normally: {text.strip()[-120:]}")
    else:
        res["inconclusive"] = [f"D11 witness ended with unexpected status {p.returncode}: {text[-200:]}"]
    return res


def _cpu_ticks(pid):
    try:
        with open(f"/proc/{pid}/stat") as f:
            parts = f.read().rsplit(")", 1)[1].split()
        return int(parts[11]) + int(parts[12])
    except Exception:
        return None


def _run_watch(cmd, env, cwd, timeout, stall_s=30):
    """Run cmd; returns (status, output, stalled). stalled=True if the process consumed no CPU for stall_s seconds."""
    p = subprocess.Popen(cmd, cwd=cwd, env=env, stdout=subprocess.PIPE, stderr=subprocess.STDOUT)
    t0 = time.time()
    last_ticks, last_change = _cpu_ticks(p.pid), time.time()
    import threading
    out = []
    th = threading.Thread(target=lambda: out.append(p.stdout.read()))
    th.start()
    stalled = False
    while p.poll() is None:
        time.sleep(0.5)
        t = _cpu_ticks(p.pid)
        if t is not None and t != last_ticks:
            last_ticks, last_change = t, time.time()
        if time.time() - last_change > stall_s:
            stalled = True
            p.kill()
            break
        if time.time() - t0 > timeout:
            p.kill()
            break
    th.join()
    return p.wait(), (out[0] if out else b"").decode("utf-8", "replace"), stalled


def _lock_report(name, text, status, stalled, args):
    rep = {"engine": name, "evaluations": 0, "counters": {}, "maxima": {}, "sets": {}, "samples": [], "inconclusive": [],
           "violations": [], "wall_s": 0.0, "distinct_extra": 0}
    lines = [l for l in text.splitlines() if l.startswith("LOCKREPORT ")]
    case = {"engine": "lock", "stage": name, "args": args}
    if stalled:
        rep["violations"].append({"property": "C20", "kind": "deadlock", "detail": f"{name}: no CPU time consumed for 30 s with operations outstanding", "case": case})
        return rep
    if not lines:
        rep["inconclusive"].append(f"{name}: no report (status {status}): {text[-300:]}")
        return rep
    for l in lines:
        r = json.loads(l[len("LOCKREPORT "):])
        rep["evaluations"] += r["histories"]
        rep["counters"][f"{name}.histories"] = rep["counters"].get(f"{name}.histories", 0) + r["histories"]
        rep["counters"][f"{name}.ops"] = rep["counters"].get(f"{name}.ops", 0) + r["ops"]
        rep["counters"]["thread_switches_in_final_orders"] = rep["counters"].get("thread_switches_in_final_orders", 0) + r["thread_switches_in_final_orders"]
        rep["counters"]["distinct_final_orders"] = rep["counters"].get("distinct_final_orders", 0) + r["distinct_final_orders"]
        rep["distinct_extra"] += r["distinct_final_orders"]
        rep["wall_s"] += r["wall_s"]
        for v in r["first"]:
            rep["violations"].append({"property": "C20", "kind": "deadlock" if ("lost wake-up / deadlock" in v or ": deadlock" in v) else "history", "detail": f"{name}: {v}", "case": case})
        if r["violations"] and not r["first"]:
            rep["violations"].append({"property": "C20", "kind": "history", "detail": f"{name}: {r['violations']} violations", "case": case})
    if len(rep["samples"]) == 0:
        rep["samples"].append({"stage": name, "args": args, "report": json.loads(lines[0][len("LOCKREPORT "):])})
    return rep


def stage_lock_native(stage, prop, tier, seed, workdir, build, env, log):
    binary, err = build(stage["profile"], "vh-lock")
    if binary is None:
        return {"inconclusive": [err]}
    reports, inconclusive = [], []
    t0 = time.time()
    for args in stage["runs"]:
        a = [str(x) for x in args] + ["--seed", str(seed)]
        status, text, stalled = _run_watch([binary] + a, env, None, stage.get("timeout", 600))
        rep = _lock_report("native", text, status, stalled, a)
        if status not in (0, 1) and not stalled and not rep["violations"]:
            inconclusive.append(f"native lock run ended with status {status}")
        reports.append(rep)
    return {"reports": reports, "inconclusive": inconclusive,
            "info": {"stage": stage["name"], "runs": len(stage["runs"]), "wall_s": round(time.time() - t0, 1)}}


def _sanitizer_verdict(text):
    """A sanitizer report counts against the repository only if a frame under /repo/crates/ (or the lock
    harness itself) is on a stack; a report wholly inside a dependency makes the stage inconclusive."""
    blocks = [b for b in text.split("\n\n") if ("Undefined Behavior" in b or "data race" in b.lower() or "deadlock" in b.lower())]
    if not blocks:
        return None, None
    def trim(b):
        k = b.find("error:")
        return (b[k:] if k >= 0 else b).replace("\n", " | ")
    for b in blocks:
        if "/crates/" in b or "vh-lock" in b or "vh-mini" in b:
            return "violation", trim(b)[:700]
    return "inconclusive", trim(blocks[0])[:400]


def stage_lock_miri(stage, prop, tier, seed, workdir, build, env, log):
    """StdLock histories under Miri: every seed is another schedule; Miri reports data races,
    UB and deadlocks itself, the history checker runs inside the interpreted program."""
    e = dict(env)
    shards = stage.get("shards", 1)
    per = stage.get("seeds_per_shard", 8)
    t0 = time.time()
    procs = []
    harness = os.path.join(os.path.dirname(os.path.dirname(os.path.abspath(__file__))), "harness")
    tdir = os.path.join(os.path.dirname(harness), "target-miri")
    # build once (first shard compiles, the others would race on the target dir)
    e["MIRIFLAGS"] = "-Zmiri-ignore-leaks"
    b = subprocess.run(["cargo", "+nightly", "miri", "run", "--offline", "-p", stage.get("pkg", "vh-lock"), "--target-dir", tdir, "--",
                        "--histories", "1", "--threads", "2", "--ops", "1"], cwd=harness, env=e, stdout=subprocess.PIPE, stderr=subprocess.STDOUT, text=True)
    if b.returncode != 0 and "LOCKREPORT" not in b.stdout:
        return {"inconclusive": [f"miri build/run failed: {b.stdout[-500:]}"]}
    base = (seed * 1000) % 100000
    for s in range(shards):
        e2 = dict(e)
        lo = base + s * per
        e2["MIRIFLAGS"] = f"-Zmiri-ignore-leaks -Zmiri-many-seeds={lo}..{lo + per}"
        cmd = ["cargo", "+nightly", "miri", "run", "--offline", "-p", stage.get("pkg", "vh-lock"), "--target-dir", tdir, "--"] + [str(x) for x in stage["args"]]
        procs.append((lo, subprocess.Popen(cmd, cwd=harness, env=e2, stdout=subprocess.PIPE, stderr=subprocess.STDOUT, text=True)))
    reports, inconclusive = [], []
    for lo, p in procs:
        try:
            out, _ = p.communicate(timeout=stage.get("timeout", 900))
        except subprocess.TimeoutExpired:
            p.kill()
            out, _ = p.communicate()
            inconclusive.append(f"miri shard at seed {lo}: watchdog fired")
            continue
        rep = _lock_report("miri", out, p.returncode, False, stage["args"])
        rep["counters"]["miri.seeds"] = per
        verdict, block = _sanitizer_verdict(out)
        if verdict == "violation":
            rep["violations"].append({"property": "C20", "kind": "miri-report", "detail": block, "case": {"engine": "lock", "stage": "miri", "seed_range": [lo, lo + per], "args": stage["args"]}})
        elif verdict == "inconclusive":
            inconclusive.append(f"miri report outside the repository's code: {block}")
        elif p.returncode != 0 and not rep["violations"]:
            inconclusive.append(f"miri shard at seed {lo} exited {p.returncode}: {out[-300:]}")
        reports.append(rep)
    return {"reports": reports, "inconclusive": inconclusive,
            "info": {"stage": stage["name"], "miri_seeds": shards * per, "wall_s": round(time.time() - t0, 1)}}


def stage_lock_tsan(stage, prop, tier, seed, workdir, build, env, log):
    """ThreadSanitizer build (-Zbuild-std) of the lock harness."""
    harness = os.path.join(os.path.dirname(os.path.dirname(os.path.abspath(__file__))), "harness")
    tdir = os.path.join(os.path.dirname(harness), "target-tsan")
    e = dict(env)
    e["RUSTFLAGS"] = "-Zsanitizer=thread --cfg essential_base_verif"
    t0 = time.time()
    pkg = stage.get("pkg", "vh-lock")
    b = subprocess.run(["cargo", "+nightly", "build", "--offline", "-Zbuild-std", "--target", "x86_64-unknown-linux-gnu", "--release", "-p", pkg,
                        "--target-dir", tdir], cwd=harness, env=e, stdout=subprocess.PIPE, stderr=subprocess.STDOUT, text=True)
    if b.returncode != 0:
        return {"inconclusive": [f"tsan build failed: {b.stdout[-600:]}"]}
    binary = os.path.join(tdir, "x86_64-unknown-linux-gnu", "release", pkg)
    e2 = dict(env)
    e2["TSAN_OPTIONS"] = "halt_on_error=0 report_signal_unsafe=0"
    reports, inconclusive = [], []
    for args in stage["runs"]:
        a = [str(x) for x in args] + ["--seed", str(seed)]
        status, text, stalled = _run_watch([binary] + a, e2, None, stage.get("timeout", 900))
        rep = _lock_report("tsan", text, status, stalled, a)
        n_reports = text.count("WARNING: ThreadSanitizer")
        rep["counters"]["tsan.reports"] = n_reports
        if n_reports:
            verdict, block = _sanitizer_verdict(text.replace("==================", "\n\n"))
            if verdict == "violation" or "/crates/" in text:
                rep["violations"].append({"property": prop, "kind": "tsan-report", "detail": text[text.find("WARNING: ThreadSanitizer"):][:600], "case": {"engine": "lock", "stage": "tsan", "args": a}})
            else:
                inconclusive.append("tsan report outside the repository's code: " + text[text.find("WARNING: ThreadSanitizer"):][:300])
        reports.append(rep)
    return {"reports": reports, "inconclusive": inconclusive,
            "info": {"stage": stage["name"], "tsan_build_and_run_s": round(time.time() - t0, 1)}}


def _collect_vh(procs, name, timeout):
    reports, inconclusive, texts = [], [], []
    for i, p, out in procs:
        try:
            stdout, _ = p.communicate(timeout=timeout)
        except subprocess.TimeoutExpired:
            p.kill()
            stdout, _ = p.communicate()
            inconclusive.append(f"{name} shard {i}: watchdog fired")
            continue
        text = stdout if isinstance(stdout, str) else stdout.decode("utf-8", "replace")
        texts.append(text)
        if os.path.exists(out):
            with open(out) as f:
                rep = json.load(f)
            rep["_hashes"] = out + ".hashes"
            reports.append(rep)
        elif p.returncode != 0:
            inconclusive.append(f"{name} shard {i}: exit {p.returncode}: {text[-300:]}")
    return reports, inconclusive, texts


def stage_vh_tsan(stage, prop, tier, seed, workdir, build, env, log):
    """The engine's own workload re-run in a ThreadSanitizer build (-Zbuild-std): data races under real schedules."""
    harness = os.path.join(os.path.dirname(os.path.dirname(os.path.abspath(__file__))), "harness")
    verif = os.path.dirname(harness)
    tdir = os.path.join(verif, "target-tsan")
    e = dict(env)
    e["RUSTFLAGS"] = "-Zsanitizer=thread --cfg essential_base_verif"
    t0 = time.time()
    b = subprocess.run(["cargo", "+nightly", "build", "--offline", "-Zbuild-std", "--target", "x86_64-unknown-linux-gnu", "--release", "-p", "vh",
                        "--target-dir", tdir], cwd=harness, env=e, stdout=subprocess.PIPE, stderr=subprocess.STDOUT, text=True)
    if b.returncode != 0:
        return {"inconclusive": [f"tsan build failed: {b.stdout[-600:]}"]}
    binary = os.path.join(tdir, "x86_64-unknown-linux-gnu", "release", "vh")
    n = stage.get("shards", 4)
    procs = []
    for i in range(n):
        out = os.path.join(workdir, f"{stage['name']}-{i}.json")
        e2 = dict(env)
        e2["TSAN_OPTIONS"] = "halt_on_error=0 report_signal_unsafe=0 exitcode=0"
        e2.update(stage.get("env", {}))
        cmd = [binary, stage["engine"], "--prop", prop, "--tier", tier, "--seed", str(seed), "--shard", str(i), "--nshards", str(n),
               "--out", out, "--scale", str(stage.get("scale", 0.05)), "--regime", "tsan"]
        procs.append((i, subprocess.Popen(cmd, cwd=verif, env=e2, stdout=subprocess.PIPE, stderr=subprocess.STDOUT, text=True), out))
    reports, inconclusive, texts = _collect_vh(procs, stage["name"], stage.get("timeout", 3000))
    n_reports, repo_reports, first = 0, 0, ""
    for text in texts:
        for block in text.split("=================="):
            if "WARNING: ThreadSanitizer" in block:
                n_reports += 1
                if "/crates/" in block and "/repo" in block or "essential_" in block:
                    repo_reports += 1
                    first = first or block.strip()[:700]
    extra = {"engine": "tsan", "evaluations": 0, "counters": {"tsan.reports": n_reports, "tsan.reports_in_repo_code": repo_reports}, "maxima": {}, "sets": {},
             "samples": [], "inconclusive": [], "violations": [], "wall_s": 0.0}
    if repo_reports:
        extra["violations"].append({"property": prop, "kind": "tsan-report", "detail": first, "case": {"engine": "tsan", "stage": stage["name"]}})
    elif n_reports:
        inconclusive.append(f"{n_reports} ThreadSanitizer report(s) without a frame in the repository's code")
    reports.append(extra)
    return {"reports": reports, "inconclusive": inconclusive,
            "info": {"stage": stage["name"], "regime": "tsan (-Zbuild-std)", "shards": n, "tsan_reports": n_reports,
                     "evaluations": sum(r["evaluations"] for r in reports), "wall_s": round(time.time() - t0, 1)}}


def stage_vh_miri(stage, prop, tier, seed, workdir, build, env, log):
    """A handful of tiny cases of the engine's workload interpreted by Miri (tree borrows): UB, data races and deadlocks
    in whatever the workload reaches, including rayon's scheduling. ~45 s per case, so only a few."""
    harness = os.path.join(os.path.dirname(os.path.dirname(os.path.abspath(__file__))), "harness")
    verif = os.path.dirname(harness)
    tdir = os.path.join(verif, "target-miri")
    e = dict(env)
    e["RUSTFLAGS"] = "--cfg essential_base_verif"
    e["MIRIFLAGS"] = "-Zmiri-tree-borrows -Zmiri-ignore-leaks -Zmiri-permissive-provenance -Zmiri-disable-isolation"
    e["RAYON_NUM_THREADS"] = "3"
    t0 = time.time()
    n = stage.get("shards", 8)
    procs = []
    # the first shard builds; the others start once the binary exists (cargo serialises on the target dir anyway)
    for i in range(n):
        out = os.path.join(workdir, f"{stage['name']}-{i}.json")
        cmd = ["cargo", "+nightly", "miri", "run", "--offline", "-p", "vh", "--target-dir", tdir, "--", stage["engine"], "--prop", prop, "--tier", "quick",
               "--seed", str(seed), "--shard", str(i), "--nshards", str(n), "--out", out, "--scale", str(stage.get("scale", 0.001)), "--regime", "miri"] + stage.get("args", [])
        procs.append((i, subprocess.Popen(cmd, cwd=harness, env=e, stdout=subprocess.PIPE, stderr=subprocess.STDOUT, text=True), out))
    reports, inconclusive, texts = _collect_vh(procs, stage["name"], stage.get("timeout", 3300))
    bad = [t for t in texts if "Undefined Behavior" in t or "data race" in t.lower() or "deadlock" in t.lower()]
    extra = {"engine": "miri", "evaluations": 0, "counters": {"miri.shards_completed": len(reports), "miri.reports": len(bad)}, "maxima": {}, "sets": {},
             "samples": [], "inconclusive": [], "violations": [], "wall_s": 0.0}
    for t in bad:
        i = max(t.find("Undefined Behavior"), 0)
        block = t[i:i + 900]
        if "/crates/" in block or "essential_" in block:
            extra["violations"].append({"property": prop, "kind": "miri-report", "detail": block, "case": {"engine": "miri", "stage": stage["name"]}})
        else:
            inconclusive.append("Miri report without a frame in the repository's code: " + block[:300])
    reports.append(extra)
    return {"reports": reports, "inconclusive": inconclusive,
            "info": {"stage": stage["name"], "regime": "miri (tree borrows)", "shards": n,
                     "evaluations": sum(r["evaluations"] for r in reports), "wall_s": round(time.time() - t0, 1)}}


def stage_vh_valgrind(stage, prop, tier, seed, workdir, build, env, log):
    """valgrind memcheck over the plain release binary: covers the C code of secp256k1 (not instrumented by rustc's
    sanitizers) while hostile bytes reach it. Only invalid read/write/free and uninitialised-value errors count."""
    binary, err = build("release")
    if binary is None:
        return {"inconclusive": [err]}
    verif = os.path.dirname(os.path.dirname(os.path.abspath(__file__)))
    n = stage.get("shards", 8)
    t0 = time.time()
    procs = []
    for i in range(n):
        out = os.path.join(workdir, f"{stage['name']}-{i}.json")
        vlog = os.path.join(workdir, f"{stage['name']}-{i}.vg")
        e2 = dict(env)
        e2["RAYON_NUM_THREADS"] = "2"
        cmd = ["valgrind", "--tool=memcheck", "--leak-check=no", "--error-exitcode=0", f"--log-file={vlog}", binary, stage["engine"], "--prop", prop,
               "--tier", "quick", "--seed", str(seed), "--shard", str(i), "--nshards", str(n), "--out", out, "--scale", str(stage.get("scale", 0.02)),
               "--regime", "valgrind-memcheck"]
        procs.append((i, subprocess.Popen(cmd, cwd=verif, env=e2, stdout=subprocess.PIPE, stderr=subprocess.STDOUT, text=True), out, vlog))
    reports, inconclusive, _ = _collect_vh([(i, p, o) for i, p, o, _ in procs], stage["name"], stage.get("timeout", 3000))
    errors, first = 0, ""
    for _, _, _, vlog in procs:
        try:
            text = open(vlog).read()
        except OSError:
            continue
        for line in text.splitlines():
            if "ERROR SUMMARY:" in line:
                try:
                    errors += int(line.split("ERROR SUMMARY:")[1].split()[0])
                except ValueError:
                    pass
        if not first and ("Invalid read" in text or "Invalid write" in text or "Invalid free" in text or "uninitialised" in text):
            k = min(x for x in (text.find("Invalid"), text.find("uninitialised")) if x >= 0)
            first = text[k:k + 900]
    extra = {"engine": "valgrind", "evaluations": 0, "counters": {"memcheck.errors": errors}, "maxima": {}, "sets": {}, "samples": [], "inconclusive": [],
             "violations": [], "wall_s": 0.0}
    if errors:
        extra["violations"].append({"property": prop, "kind": "memcheck-error", "detail": first or f"{errors} memcheck errors", "case": {"engine": "valgrind", "stage": stage["name"]}})
    reports.append(extra)
    return {"reports": reports, "inconclusive": inconclusive,
            "info": {"stage": stage["name"], "regime": "valgrind memcheck on the release binary", "shards": n, "memcheck_errors": errors,
                     "evaluations": sum(r["evaluations"] for r in reports), "wall_s": round(time.time() - t0, 1)}}
